(* BackendLog.v — C06 delivery log: along every history, each queue of each session
   holds exactly  (what the specification says was enqueued since the queue was created
   or reset)  minus  (as many elements at the front as were dequeued), in publish order:
       dequeued ++ queued = enqueued.
   `enq_event` is the specification of what one step appends to a queue: for a Publish,
   one copy (retain flag cleared) iff the session holds a matching filter at that moment
   and the queue has room (a full queue of an online receiver makes the call wait or fail,
   of an offline or closing one drops the message); for a Subscribe, the retained replay. *)
From Coq Require Import List NArith Bool Lia PeanoNat.
From Coq.Strings Require Import Byte.
From GM Require Import Codec.Packet Topic.MatchSpec Broker.Backend Broker.BackendSpec
  Broker.BackendProofs Broker.BackendProofsPublish Broker.BackendProofsSteps Broker.BackendOwn Broker.BackendProofsHist.
Import ListNotations.
Open Scope N_scope.

Definition queue (temp : bool) (s : session) : list message := if temp then s_tq s else s_sq s.

Definition holds (st : state) (c : conn) (k : skey) : bool :=
  match session_of st c with Some (k', _) => skey_eqb k' k | None => false end.

(* what the step appends to queue (k, temp), by the specification *)
Definition enq_event (k : skey) (temp : bool) (st : state) (o : op) (r : result) : list message :=
  match get_session st k with
  | None => []
  | Some s =>
      match o with
      | OPublish c m got =>
          if Bool.eqb (use_temp m) temp && has_match (s_subs s) (m_topic m) &&
             negb (is_full (st_cap st) (queue temp s)) &&
             match r with
             | ROk => true
             | _ => false                          (* refused (ErrQueueFull) or waiting: nothing is enqueued *)
             end
          then [Msg (m_topic m) (m_payload m) (m_qos m) false] else []
      | OSubscribe c subs batches =>
          if temp && holds st c k && match r with ROk | RQueueFull => true | _ => false end
          then firstn (N.to_nat (st_cap st - N.of_nat (length (s_tq s)))) (concat batches) else []
      | _ => []
      end
  end.

(* how many elements the step takes from the front of queue (k, temp) *)
Definition deq_count (k : skey) (temp : bool) (st : state) (o : op) (r : result) : nat :=
  match o, r with
  | ODequeue c t, RMsg _ => if Bool.eqb t temp && holds st c k then 1%nat else 0%nat
  | _, _ => 0%nat
  end.

(* the temporary queue of a stored session is reset when the session is resumed *)
Definition reset_event (k : skey) (temp : bool) (st : state) (o : op) (r : result) : bool :=
  temp &&
  match r with
  | RSetup true =>
      match o with
      | OSetup _ id _ => skey_eqb k (KStored id)
      | OSetupEnd _ => match st_pending st with Some p => skey_eqb k (KStored (p_id p)) | None => false end
      | _ => false
      end
  | _ => false
  end.

(* expected content of queue (k, temp) after the observed steps *)
Fixpoint expected (k : skey) (temp : bool) (tr : list (state * op * result * state)) (acc : list message) : list message :=
  match tr with
  | [] => acc
  | (st, o, r, st') :: tr' =>
      expected k temp tr'
        (match get_session st k, get_session st' k with
         | _, None => []                                   (* no such session *)
         | None, Some _ => []                              (* just created *)
         | Some _, Some _ =>
             if reset_event k temp st o r then []
             else skipn (deq_count k temp st o r) acc ++ enq_event k temp st o r
         end)
  end.

Definition names_ok (ops : list op) : bool :=
  forallb (fun o => match o with OPublish _ m _ => name_ok (m_topic m) | _ => true end) ops.

(* ------------------------------------------------------------------ a small invariant: a connection that has not called Setup
   (or whose Setup is still waiting) has no temporary session *)
Definition TempsOk (st : state) : Prop :=
  (forall c, alookup N.eqb c (st_cid st) = None -> alookup N.eqb c (st_temps st) = None) /\
  (forall p, st_pending st = Some p -> alookup N.eqb (p_conn p) (st_temps st) = None /\
                                        alookup N.eqb (p_conn p) (st_cid st) <> None).

Lemma temps_put st k s2 c : get_session st k <> None ->
  alookup N.eqb c (st_temps st) = None -> alookup N.eqb c (st_temps (put_session st k s2)) = None.
Proof.
  intros G H. destruct k as [x|i]; cbn [put_session st_temps]; [|exact H].
  rewrite (alookup_aset N.eqb N.eqb_eq). destruct (c =? x) eqn:E; [|exact H].
  apply N.eqb_eq in E; subst x. cbn [get_session] in G. congruence.
Qed.

Lemma tempsok_frame st st' :
  st_cid st' = st_cid st -> st_pending st' = st_pending st ->
  (forall c, alookup N.eqb c (st_temps st) = None -> alookup N.eqb c (st_temps st') = None) ->
  TempsOk st -> TempsOk st'.
Proof.
  intros E1 E2 H [T1 T2]. split.
  - intros c Hc. rewrite E1 in Hc. apply H, T1, Hc.
  - intros p Hp. rewrite E2 in Hp. destruct (T2 p Hp) as [A B]. rewrite E1. split; [apply H, A|exact B].
Qed.

Lemma tempsok_setup_finish st c id clean :
  (forall x, alookup N.eqb x (st_cid st) = None -> alookup N.eqb x (st_temps st) = None) ->
  alookup N.eqb c (st_cid st) <> None ->
  TempsOk (snd (setup_finish st c id clean)).
Proof.
  intros T1 Hc. unfold setup_finish. destruct clean; [|destruct (alookup bytes_eqb id (st_stored st))]; cbn [snd]; split;
    cbn [st_cid st_temps st_pending]; try (intros p Hp; discriminate); try exact T1.
  intros x Hx. rewrite (alookup_aset N.eqb N.eqb_eq). destruct (x =? c) eqn:E; [|exact (T1 x Hx)].
  apply N.eqb_eq in E; subst x. contradiction.
Qed.

Lemma tempsok_step st o : TempsOk st -> TempsOk (snd (step st o)).
Proof.
  intros T. pose proof T as [T1 T2].
  destruct o as [c id clean|t|c|c subs b|c fs|c m got|c t|c|]; cbn [step].
  - unfold setup. destruct (st_pending st) eqn:P; [exact T|]. destruct (alookup N.eqb c (st_cid st)) eqn:H; [exact T|].
    cbn [st_closing].
    assert (T1' : forall x, alookup N.eqb x (aset N.eqb c id (st_cid st)) = None -> alookup N.eqb x (st_temps st) = None).
    { intros x Hx. rewrite (alookup_aset N.eqb N.eqb_eq) in Hx. destruct (x =? c); [discriminate|exact (T1 x Hx)]. }
    assert (Hc : alookup N.eqb c (aset N.eqb c id (st_cid st)) <> None).
    { rewrite (alookup_aset N.eqb N.eqb_eq), N.eqb_refl. discriminate. }
    destruct (st_closing st).
    + cbn [snd]. split; cbn [st_cid st_temps st_pending]; [exact T1'|intros p Hp; discriminate].
    + destruct (is_nil id).
      * cbn [snd]. split; cbn [st_cid st_temps st_pending]; [|intros p Hp; discriminate].
        intros x Hx. rewrite (alookup_aset N.eqb N.eqb_eq). destruct (x =? c) eqn:E; [|exact (T1' x Hx)].
        apply N.eqb_eq in E; subst x. contradiction.
      * match goal with |- context [existing_session ?s id] => set (st1 := s) end.
        destruct (existing_session st1 id) as [[a b0 c0 [c1|]]|].
        -- cbn [snd]. unfold set_pending. split; cbn [st_cid st_temps st_pending]; [exact T1'|].
           intros p Hp. injection Hp as <-. cbn [p_conn]. split; [exact (T1 c H)|exact Hc].
        -- apply tempsok_setup_finish; [exact T1'|exact Hc].
        -- apply tempsok_setup_finish; [exact T1'|exact Hc].
  - unfold setup_end. destruct (st_pending st) as [p|] eqn:P; [|exact T].
    destruct t; [cbn [snd]; unfold set_pending; split; cbn [st_cid st_temps st_pending]; [exact T1|intros p' Hp; discriminate]|].
    destruct (mem_n (p_old p) (st_closed st)); [|exact T].
    apply tempsok_setup_finish; [exact T1|exact (proj2 (T2 p eq_refl))].
  - unfold mark_closed. destruct (mem_n c (st_term st)); [|exact T]. cbn [snd]. revert T. apply tempsok_frame; auto.
  - unfold subscribe. destruct (session_of st c) as [[k s]|] eqn:S; [|exact T]. destruct (negb _); [exact T|]. cbn [snd].
    revert T. apply tempsok_frame; try (destruct k; reflexivity).
    intros x; apply temps_put. rewrite (session_of_get _ _ _ _ S); discriminate.
  - unfold unsubscribe. destruct (session_of st c) as [[k s]|] eqn:S; [|exact T]. cbn [snd].
    revert T. apply tempsok_frame; try (destruct k; reflexivity).
    intros x; apply temps_put. rewrite (session_of_get _ _ _ _ S); discriminate.
  - rewrite publish_unfold. destruct (pub_stuck _ _ _); [exact T|]. cbn [snd]. revert T. apply tempsok_frame; try reflexivity.
    intros x Hx. cbn [st_temps].
    rewrite (alookup_map N.eqb N.eqb_eq (fun key s => deliver (pub_err st c m) got (KTemp key) (classify st c m s) m s)).
    rewrite Hx; reflexivity.
  - unfold dequeue. destruct (session_of st c) as [[k s]|] eqn:S; [|exact T].
    destruct t; [destruct (s_tq s)|destruct (s_sq s)]; try exact T; cbn [snd]; revert T;
      (apply tempsok_frame; try (destruct k; reflexivity));
      intros x; apply temps_put; rewrite (session_of_get _ _ _ _ S); discriminate.
  - unfold terminate. destruct (alookup N.eqb c (st_cid st)) as [id|]; [|exact T].
    destruct (mem_n c (st_term st) || _); [exact T|]. cbn [snd]. revert T. apply tempsok_frame; try reflexivity.
    intros x Hx. cbn [st_temps]. rewrite (alookup_aremove N.eqb N.eqb_eq). destruct (x =? c); [reflexivity|exact Hx].
  - cbn [snd]. revert T. apply tempsok_frame; auto.
Qed.

Lemma tempsok_init cap : TempsOk (init cap).
Proof. split; [intros c _; reflexivity|intros p H; discriminate]. Qed.

(* ------------------------------------------------------------------ one step, one queue *)
Lemma queue_enqueue temp m s :
  queue temp (enqueue m s) = if Bool.eqb (use_temp m) temp then queue temp s ++ [Msg (m_topic m) (m_payload m) (m_qos m) false]
                             else queue temp s.
Proof. unfold enqueue, queue, live_copy. destruct (use_temp m), temp; reflexivity. Qed.

Lemma queue_of_queue m s : queue_of m s = queue (use_temp m) s.
Proof. reflexivity. Qed.

Lemma eqb_true_eq a b : Bool.eqb a b = true -> a = b.
Proof. apply Bool.eqb_prop. Qed.

Lemma publish_queue st c m got temp k s :
  wf st -> OwnOk st -> name_ok (m_topic m) = true -> get_session st k = Some s ->
  let (r, st') := publish st c m got in
  exists s', get_session st' k = Some s' /\
    queue temp s' = queue temp s ++ enq_event k temp st (OPublish c m got) r.
Proof.
  intros W O Hn G. destruct (publish st c m got) as [r st'] eqn:E.
  assert (Est : st' = snd (publish st c m got)) by (rewrite E; reflexivity).
  pose proof (get_sessions st k s G) as Hin.
  unfold enq_event. rewrite G.
  rewrite publish_unfold in E. destruct (pub_stuck st c m) eqn:Hnb.
  - injection E as <- <-. exists s. split; [exact G|].
    destruct (own_refused st c m); rewrite !andb_false_r; rewrite app_nil_r; reflexivity.
  - unfold pub_stuck in Hnb. apply orb_false_iff in Hnb as [R Hb].
    pose proof (no_midway st c m W O R) as Herr. rewrite Herr in *. cbn [negb andb] in Hb.
    assert (Hnb : pub_stuck st c m = false) by (unfold pub_stuck; rewrite R, Herr, Hb; reflexivity).
    injection E as <- _. rewrite Est, (get_session_published st c m got k Hnb), G, Herr. cbn [option_map].
    eexists; split; [reflexivity|]. rewrite andb_true_r.
    pose proof (pub_err_false_session st c m k s Herr Hin) as He.
    pose proof (pub_blk_false_session st c m k s Hb Hin) as Hbl.
    rewrite (classify_cases st c m s Hn) in *. rewrite queue_of_queue in *.
    destruct (Bool.eqb (use_temp m) temp) eqn:ET.
    + apply eqb_true_eq in ET. subst temp. cbn [andb].
      destruct (has_match (s_subs s) (m_topic m)) eqn:HM; [|cbn [deliver andb]; rewrite app_nil_r; reflexivity].
      cbn [andb].
      destruct (is_full (st_cap st) (queue (use_temp m) s)) eqn:F; cbn [negb].
      * (* no room: nothing is appended *)
        rewrite app_nil_r.
        destruct (s_act s) as [c'|]; [|reflexivity].
        destruct (c' =? c); [destruct (mem_n c (st_dying st)); [reflexivity|discriminate]|].
        destruct (mem_n c' (st_dying st)); [reflexivity|discriminate].
      * assert (A : match s_act s with
                    | Some c' => if c' =? c then AEnq else AEnq
                    | None => AEnq end = AEnq) by (destruct (s_act s) as [c'|]; [destruct (c' =? c)|]; reflexivity).
        rewrite A. cbn [deliver]. rewrite queue_enqueue, Bool.eqb_reflx; reflexivity.
    + cbn [andb]. rewrite app_nil_r.
      match goal with |- queue temp (deliver ?e got k ?a m s) = _ =>
        assert (Hd : deliver e got k a m s = s \/ deliver e got k a m s = enqueue m s)
          by (unfold deliver; destruct a; auto);
        destruct Hd as [-> | ->]; [reflexivity|rewrite queue_enqueue, ET; reflexivity] end.
Qed.

Lemma holds_key st c k0 s0 k : session_of st c = Some (k0, s0) -> holds st c k = skey_eqb k0 k.
Proof. unfold holds. intros ->. reflexivity. Qed.

Lemma holds_none st c k : session_of st c = None -> holds st c k = false.
Proof. unfold holds. intros ->. reflexivity. Qed.

Lemma setup_finish_queue st c id clean temp k s :
  alookup N.eqb c (st_temps st) = None -> get_session st k = Some s ->
  let (r, st') := setup_finish st c id clean in
  forall s', get_session st' k = Some s' ->
  queue temp s' = if temp && match r with RSetup true => skey_eqb k (KStored id) | _ => false end then [] else queue temp s.
Proof.
  intros Tc G. unfold setup_finish. destruct clean.
  - intros s' G'. rewrite andb_false_r. destruct k as [x|i]; cbn [get_session st_temps st_stored] in *.
    + rewrite (alookup_aset N.eqb N.eqb_eq) in G'. destruct (x =? c) eqn:E; [apply N.eqb_eq in E; subst x; congruence|]. congruence.
    + rewrite (alookup_aremove bytes_eqb bytes_eqb_eq) in G'. destruct (bytes_eqb i id); [discriminate|congruence].
  - destruct (alookup bytes_eqb id (st_stored st)) as [s0|] eqn:L; intros s' G'.
    + destruct k as [x|i]; cbn [get_session st_temps st_stored skey_eqb] in *.
      * rewrite andb_false_r. congruence.
      * rewrite (alookup_aset bytes_eqb bytes_eqb_eq) in G'. destruct (bytes_eqb i id) eqn:E.
        -- apply bytes_eqb_eq in E; subst i. rewrite L in G; injection G as <-. injection G' as <-.
           destruct temp; reflexivity.
        -- rewrite andb_false_r. congruence.
    + rewrite andb_false_r. destruct k as [x|i]; cbn [get_session st_temps st_stored] in *; [congruence|].
      rewrite (alookup_aset bytes_eqb bytes_eqb_eq) in G'. destruct (bytes_eqb i id) eqn:E; [|congruence].
      apply bytes_eqb_eq in E; subst i. congruence.
Qed.

Lemma setup_finish_created st c id clean k :
  get_session st k = None ->
  forall s', get_session (snd (setup_finish st c id clean)) k = Some s' -> s_tq s' = [] /\ s_sq s' = [].
Proof.
  intros G s'. unfold setup_finish. destruct clean; [|destruct (alookup bytes_eqb id (st_stored st)) as [s0|] eqn:L]; cbn [snd];
    destruct k as [x|i]; cbn [get_session st_temps st_stored] in *; intros G'; try congruence.
  - rewrite (alookup_aset N.eqb N.eqb_eq) in G'. destruct (x =? c); [injection G' as <-; auto|congruence].
  - rewrite (alookup_aremove bytes_eqb bytes_eqb_eq) in G'. destruct (bytes_eqb i id); [discriminate|congruence].
  - rewrite (alookup_aset bytes_eqb bytes_eqb_eq) in G'. destruct (bytes_eqb i id) eqn:E; [|congruence].
    apply bytes_eqb_eq in E; subst i. congruence.
  - rewrite (alookup_aset bytes_eqb bytes_eqb_eq) in G'. destruct (bytes_eqb i id); [injection G' as <-; auto|congruence].
Qed.

Ltac no_events G :=
  unfold reset_event, deq_count, enq_event; rewrite ?G; cbn [andb skipn];
  rewrite ?andb_false_r, ?app_nil_r; cbn [skipn]; rewrite ?app_nil_r; try reflexivity.

Lemma queue_step st o temp k s :
  wf st -> OwnOk st -> TempsOk st ->
  (match o with OPublish _ m _ => name_ok (m_topic m) = true | _ => True end) ->
  get_session st k = Some s ->
  let (r, st') := step st o in
  forall s', get_session st' k = Some s' ->
  queue temp s' =
    if reset_event k temp st o r then []
    else skipn (deq_count k temp st o r) (queue temp s) ++ enq_event k temp st o r.
Proof.
  intros W O [T1 T2] Hn G.
  destruct o as [c id clean|t|c|c subs b|c fs|c m got|c t|c|]; cbn [step].
  - (* Setup *)
    unfold setup. destruct (st_pending st) eqn:P; [intros s' G'; assert (s' = s) by congruence; subst; no_events G|].
    destruct (alookup N.eqb c (st_cid st)) eqn:H; [intros s' G'; assert (s' = s) by congruence; subst; no_events G|].
    cbn [st_closing]. destruct (st_closing st).
    { intros s' G'. assert (s' = s) by (destruct k; cbn [get_session st_temps st_stored] in *; congruence). subst; no_events G. }
    destruct (is_nil id).
    { intros s' G'. assert (s' = s).
      { destruct k as [x|i]; cbn [get_session st_temps st_stored] in *; [|congruence].
        rewrite (alookup_aset N.eqb N.eqb_eq) in G'. destruct (x =? c) eqn:E; [|congruence].
        apply N.eqb_eq in E; subst x. rewrite (T1 c H) in G. discriminate. }
      subst; no_events G. }
    match goal with |- context [existing_session ?s0 id] => set (st1 := s0) end.
    assert (G1 : get_session st1 k = Some s) by (destruct k; exact G).
    assert (Tc : alookup N.eqb c (st_temps st1) = None) by exact (T1 c H).
    destruct (existing_session st1 id) as [[a b0 c0 [c1|]]|].
    + intros s' G'. unfold set_pending in G'. subst st1.
      assert (s' = s) by (destruct k; cbn [get_session st_temps st_stored] in *; congruence). subst; no_events G.
    + pose proof (setup_finish_queue st1 c id clean temp k s Tc G1) as X.
      destruct (setup_finish st1 c id clean) as [r st']. intros s' G'. rewrite (X s' G').
      unfold reset_event, deq_count, enq_event. rewrite G. cbn [skipn]. rewrite app_nil_r.
      destruct r as [[|]| | | | | | | | | | | |]; rewrite ?andb_false_r; reflexivity.
    + pose proof (setup_finish_queue st1 c id clean temp k s Tc G1) as X.
      destruct (setup_finish st1 c id clean) as [r st']. intros s' G'. rewrite (X s' G').
      unfold reset_event, deq_count, enq_event. rewrite G. cbn [skipn]. rewrite app_nil_r.
      destruct r as [[|]| | | | | | | | | | | |]; rewrite ?andb_false_r; reflexivity.
  - (* SetupEnd *)
    unfold setup_end. destruct (st_pending st) as [p|] eqn:P; [|intros s' G'; assert (s' = s) by congruence; subst; no_events G].
    destruct t.
    { intros s' G'. unfold set_pending in G'.
      assert (s' = s) by (destruct k; cbn [get_session st_temps st_stored] in *; congruence). subst; no_events G. }
    destruct (mem_n (p_old p) (st_closed st)); [|intros s' G'; assert (s' = s) by congruence; subst; no_events G].
    pose proof (setup_finish_queue st (p_conn p) (p_id p) (p_clean p) temp k s (proj1 (T2 p eq_refl)) G) as X.
    destruct (setup_finish st (p_conn p) (p_id p) (p_clean p)) as [r st']. intros s' G'. rewrite (X s' G').
    unfold reset_event, deq_count, enq_event. rewrite G, P. cbn [skipn]. rewrite app_nil_r.
    destruct r as [[|]| | | | | | | | | | | |]; rewrite ?andb_false_r; reflexivity.
  - unfold mark_closed. destruct (mem_n c (st_term st)); intros s' G';
      (assert (s' = s) by (destruct k; cbn [get_session st_temps st_stored] in *; congruence)); subst; no_events G.
  - (* Subscribe *)
    unfold subscribe. destruct (session_of st c) as [[k0 s0]|] eqn:S.
    2:{ intros s' G'. assert (s' = s) by congruence. subst. no_events G; try (rewrite (holds_none _ _ _ S); no_events G). }
    pose proof (session_of_get _ _ _ _ S) as G0.
    destruct (negb _).
    { intros s' G'. assert (s' = s) by congruence. subst. no_events G. }
    intros s' G'. rewrite get_put in G'. unfold reset_event, deq_count, enq_event. rewrite G, (holds_key _ _ _ _ k S). cbn [skipn].
    rewrite (skey_eqb_sym k k0) in G'.
    assert (Goal' : queue temp s' = queue temp s ++
              (if temp && skey_eqb k0 k then firstn (N.to_nat (st_cap st - N.of_nat (length (s_tq s)))) (concat b) else [])).
    { destruct (skey_eqb k0 k) eqn:EK.
      - apply skey_eqb_eq in EK; subst k0. rewrite G in G0; injection G0 as <-. injection G' as <-.
        destruct temp; cbn [queue s_tq s_sq andb]; [reflexivity|rewrite app_nil_r; reflexivity].
      - assert (s' = s) by congruence. subst. rewrite andb_false_r, app_nil_r. reflexivity. }
    destruct (Nat.leb _ _); rewrite andb_false_r, andb_true_r; exact Goal'.
  - (* Unsubscribe *)
    unfold unsubscribe. destruct (session_of st c) as [[k0 s0]|] eqn:S; [|intros s' G'; assert (s' = s) by congruence; subst; no_events G].
    pose proof (session_of_get _ _ _ _ S) as G0.
    intros s' G'. rewrite get_put in G'. rewrite (skey_eqb_sym k k0) in G'. destruct (skey_eqb k0 k) eqn:EK.
    + apply skey_eqb_eq in EK; subst k0. rewrite G in G0; injection G0 as <-. injection G' as <-. no_events G; try (destruct temp; reflexivity).
    + assert (s' = s) by congruence. subst. no_events G.
  - (* Publish *)
    pose proof (publish_queue st c m got temp k s W O Hn G) as X.
    destruct (publish st c m got) as [r st']. destruct X as [s1 [G1 Q]]. intros s' G'.
    assert (s' = s1) by congruence. subst s1. rewrite Q.
    assert (R : reset_event k temp st (OPublish c m got) r = false).
    { unfold reset_event. destruct r as [[|]| | | | | | | | | | | |]; rewrite ?andb_false_r; reflexivity. }
    rewrite R. unfold deq_count. destruct r; reflexivity.
  - (* Dequeue *)
    unfold dequeue. destruct (session_of st c) as [[k0 s0]|] eqn:S.
    2:{ intros s' G'. assert (s' = s) by congruence. subst. no_events G. }
    pose proof (session_of_get _ _ _ _ S) as G0.
    assert (Other : forall s2 s', skey_eqb k0 k = false -> get_session (put_session st k0 s2) k = Some s' -> s' = s).
    { intros s2 s' EK G'. rewrite get_put, (skey_eqb_sym k k0), EK in G'. congruence. }
    destruct t.
    + destruct (s_tq s0) as [|m q] eqn:Q; [intros s' G'; assert (s' = s) by congruence; subst; no_events G|].
      intros s' G'. unfold reset_event, deq_count, enq_event. rewrite G, (holds_key _ _ _ _ k S). rewrite andb_false_r, app_nil_r.
      destruct (skey_eqb k0 k) eqn:EK.
      * apply skey_eqb_eq in EK; subst k0. rewrite G in G0; injection G0 as <-.
        rewrite get_put, skey_eqb_refl in G'. injection G' as <-.
        destruct temp; cbn [Bool.eqb andb queue s_tq s_sq]; [rewrite Q; reflexivity|reflexivity].
      * rewrite (Other _ _ eq_refl G'). rewrite andb_false_r. reflexivity.
    + destruct (s_sq s0) as [|m q] eqn:Q; [intros s' G'; assert (s' = s) by congruence; subst; no_events G|].
      intros s' G'. unfold reset_event, deq_count, enq_event. rewrite G, (holds_key _ _ _ _ k S). rewrite andb_false_r, app_nil_r.
      destruct (skey_eqb k0 k) eqn:EK.
      * apply skey_eqb_eq in EK; subst k0. rewrite G in G0; injection G0 as <-.
        rewrite get_put, skey_eqb_refl in G'. injection G' as <-.
        destruct temp; cbn [Bool.eqb andb queue s_tq s_sq]; [reflexivity|rewrite Q; reflexivity].
      * rewrite (Other _ _ eq_refl G'). rewrite andb_false_r. reflexivity.
  - (* Terminate *)
    unfold terminate. destruct (alookup N.eqb c (st_cid st)) as [id|]; [|intros s' G'; assert (s' = s) by congruence; subst; no_events G].
    destruct (mem_n c (st_term st) || _); [intros s' G'; assert (s' = s) by congruence; subst; no_events G|].
    intros s' G'. assert (Q : queue temp s' = queue temp s).
    { destruct k as [x|i]; cbn [get_session st_temps st_stored] in *.
      - rewrite (alookup_aremove N.eqb N.eqb_eq) in G'. destruct (x =? c); [discriminate|congruence].
      - destruct (alookup N.eqb c (st_sess st)) as [[y|j]|]; try congruence.
        destruct (alookup bytes_eqb j (st_stored st)) as [s0|] eqn:L; [|congruence].
        destruct (option_eqb N.eqb (s_act s0) (Some c)); [|congruence].
        rewrite (alookup_aset bytes_eqb bytes_eqb_eq) in G'. destruct (bytes_eqb i j) eqn:E; [|congruence].
        apply bytes_eqb_eq in E; subst j. rewrite L in G; injection G as <-. injection G' as <-. destruct temp; reflexivity. }
    rewrite Q. no_events G.
  - intros s' G'. assert (s' = s) by (destruct k; cbn [get_session st_temps st_stored] in *; congruence). subst; no_events G.
Qed.

Lemma created_step st o k :
  TempsOk st -> get_session st k = None ->
  forall s', get_session (snd (step st o)) k = Some s' -> s_tq s' = [] /\ s_sq s' = [].
Proof.
  intros [T1 T2] G s'.
  assert (Put : forall k0 s0 s2, get_session st k0 = Some s0 -> get_session (put_session st k0 s2) k = Some s' -> False).
  { intros k0 s0 s2 G0 G'. rewrite get_put in G'. destruct (skey_eqb k k0) eqn:E; [|congruence].
    apply skey_eqb_eq in E; subst k0. congruence. }
  destruct o as [c id clean|t|c|c subs b|c fs|c m got|c t|c|]; cbn [step].
  - unfold setup. destruct (st_pending st); [cbn [snd]; congruence|].
    destruct (alookup N.eqb c (st_cid st)); [cbn [snd]; congruence|].
    cbn [st_closing]. destruct (st_closing st).
    { cbn [snd]. intros G'. destruct k; cbn [get_session st_temps st_stored] in *; congruence. }
    destruct (is_nil id).
    { cbn [snd]. intros G'. destruct k as [x|i]; cbn [get_session st_temps st_stored] in *; [|congruence].
      rewrite (alookup_aset N.eqb N.eqb_eq) in G'. destruct (x =? c); [injection G' as <-; auto|congruence]. }
    match goal with |- context [existing_session ?s0 id] => set (st1 := s0) end.
    assert (G1 : get_session st1 k = None) by (destruct k; exact G).
    destruct (existing_session st1 id) as [[a b0 c0 [c1|]]|].
    + cbn [snd]. unfold set_pending. intros G'. subst st1. destruct k; cbn [get_session st_temps st_stored] in *; congruence.
    + apply setup_finish_created; exact G1.
    + apply setup_finish_created; exact G1.
  - unfold setup_end. destruct (st_pending st) as [p|]; [|cbn [snd]; congruence].
    destruct t; [cbn [snd]; unfold set_pending; intros G'; destruct k; cbn [get_session st_temps st_stored] in *; congruence|].
    destruct (mem_n (p_old p) (st_closed st)); [|cbn [snd]; congruence].
    apply setup_finish_created; exact G.
  - unfold mark_closed. destruct (mem_n c (st_term st)); cbn [snd]; intros G'; destruct k; cbn [get_session st_temps st_stored] in *; congruence.
  - unfold subscribe. destruct (session_of st c) as [[k0 s0]|] eqn:S; [|cbn [snd]; congruence].
    destruct (negb _); [cbn [snd]; congruence|]. cbn [snd]. intros G'. exfalso. exact (Put _ _ _ (session_of_get _ _ _ _ S) G').
  - unfold unsubscribe. destruct (session_of st c) as [[k0 s0]|] eqn:S; [|cbn [snd]; congruence].
    cbn [snd]. intros G'. exfalso. exact (Put _ _ _ (session_of_get _ _ _ _ S) G').
  - intros G'. pose proof (get_session_published_some st c m got k s' G') as X. rewrite G in X. discriminate.
  - unfold dequeue. destruct (session_of st c) as [[k0 s0]|] eqn:S; [|cbn [snd]; congruence].
    destruct t; [destruct (s_tq s0)|destruct (s_sq s0)]; cbn [snd]; try congruence;
      intros G'; exfalso; exact (Put _ _ _ (session_of_get _ _ _ _ S) G').
  - unfold terminate. destruct (alookup N.eqb c (st_cid st)) as [id|]; [|cbn [snd]; congruence].
    destruct (mem_n c (st_term st) || _); [cbn [snd]; congruence|]. cbn [snd]. intros G'. exfalso.
    destruct k as [x|i]; cbn [get_session st_temps st_stored] in *.
    + rewrite (alookup_aremove N.eqb N.eqb_eq) in G'. destruct (x =? c); congruence.
    + destruct (alookup N.eqb c (st_sess st)) as [[y|j]|]; try congruence.
      destruct (alookup bytes_eqb j (st_stored st)) as [s0|] eqn:L; [|congruence].
      destruct (option_eqb N.eqb (s_act s0) (Some c)); [|congruence].
      rewrite (alookup_aset bytes_eqb bytes_eqb_eq) in G'. destruct (bytes_eqb i j) eqn:E; [|congruence].
      apply bytes_eqb_eq in E; subst j. congruence.
  - unfold close_backend. cbn [snd]. intros G'. destruct k; cbn [get_session st_temps st_stored] in *; congruence.
Qed.

Lemma expected_run k temp ops : forall st acc,
  wf st -> Own st -> TempsOk st -> names_ok ops = true ->
  (forall s, get_session st k = Some s -> queue temp s = acc) ->
  match get_session (run_state st ops) k with
  | Some s => queue temp s = expected k temp (trace st ops) acc
  | None => True
  end.
Proof.
  unfold run_state. induction ops as [|o ops IH]; intros st acc W O T N H; cbn [run trace expected snd].
  - destruct (get_session st k) as [s|] eqn:G; [exact (H s eq_refl)|exact I].
  - cbn [names_ok forallb] in N. apply andb_true_iff in N as [N1 N2].
    pose proof (wf_step st o W) as W1. pose proof (tempsok_step st o T) as T1. pose proof (own_step st o O) as O1.
    pose proof (created_step st o k T) as Cr.
    assert (Hn : match o with OPublish _ m _ => name_ok (m_topic m) = true | _ => True end) by (destruct o; auto).
    pose proof (fun s G => queue_step st o temp k s W (own_ownok st O) T Hn G) as Qs.
    destruct (step st o) as [r st1]. cbn [snd] in *.
    specialize (IH st1 (match get_session st k, get_session st1 k with
                        | _, None => []
                        | None, Some _ => []
                        | Some _, Some _ => if reset_event k temp st o r then []
                                            else skipn (deq_count k temp st o r) acc ++ enq_event k temp st o r end) W1 O1 T1 N2).
    destruct (run st1 ops) as [rs st2]. cbn [snd] in *. cbn [expected]. apply IH.
    intros s1 G1. rewrite G1. destruct (get_session st k) as [s|] eqn:G.
    + rewrite (Qs s eq_refl s1 G1), (H s eq_refl). reflexivity.
    + destruct (Cr eq_refl s1 G1) as [E1 E2]. destruct temp; cbn [queue]; assumption.
Qed.

(* C06 delivery log *)
Theorem delivery_log cap ops k temp :
  names_ok ops = true ->
  match get_session (run_state (init cap) ops) k with
  | Some s => queue temp s = expected k temp (trace (init cap) ops) []
  | None => True
  end.
Proof.
  intros N. apply expected_run; [apply wf_init|apply own_init|apply tempsok_init|exact N|].
  intros s G. destruct k; discriminate.
Qed.

(* ------------------------------------------------------------------ the delivery log as a step clause
   Judged on one observed step alone: every queue of every session that exists afterwards holds what it held
   before, minus what this step dequeued from its front, plus what the specification says this step enqueues
   (decided at Publish time from the subscriptions of that moment) — whatever Subscribe / Unsubscribe did before
   or does later; a Dequeue that returns a message returns the head of the chosen queue. *)
Definition delivery_ok (st : state) (o : op) (r : result) (st' : state) : bool :=
  (match o with OPublish _ m _ => negb (name_ok (m_topic m)) | _ => false end) ||
  (forallb (fun e =>
     let k := fst e in let s' := snd e in
     match get_session st k with
     | Some s =>
         forallb (fun temp =>
           msgs_eqb (queue temp s')
                    (if reset_event k temp st o r then []
                     else skipn (deq_count k temp st o r) (queue temp s) ++ enq_event k temp st o r))
           [true; false]
     | None => is_nil (s_tq s') && is_nil (s_sq s')
     end) (sessions st') &&
   match o, r with
   | ODequeue c t, RMsg m' =>
       match session_of st c with
       | Some (_, s) =>
           match queue t s with
           | m :: _ => bytes_eqb (m_topic m') (m_topic m) && bytes_eqb (m_payload m') (m_payload m) &&
                       Bool.eqb (m_retain m') (m_retain m)
           | [] => false
           end
       | None => false
       end
   | _, _ => true
   end).

Theorem step_delivery_ok st o :
  wf st -> OwnOk st -> TempsOk st -> let (r, st') := step st o in delivery_ok st o r st' = true.
Proof.
  intros W O T. destruct (step st o) as [r st'] eqn:E. unfold delivery_ok.
  destruct (match o with OPublish _ m _ => negb (name_ok (m_topic m)) | _ => false end) eqn:Hn0; [reflexivity|].
  cbn [orb].
  assert (Hn : match o with OPublish _ m _ => name_ok (m_topic m) = true | _ => True end).
  { destruct o; auto. apply negb_false_iff in Hn0. exact Hn0. }
  assert (W' : wf st') by (pose proof (wf_step st o W) as X; rewrite E in X; exact X).
  apply andb_true_iff; split.
  - apply forallb_forall. intros [k s'] Hin. cbn [fst snd].
    pose proof (sessions_get st' k s' W' Hin) as G'.
    destruct (get_session st k) as [s|] eqn:G.
    + pose proof (queue_step st o true k s W O T Hn G) as X1. pose proof (queue_step st o false k s W O T Hn G) as X2.
      rewrite E in X1, X2. cbn [forallb]. rewrite (X1 s' G'), (X2 s' G'), !msgs_eqb_refl. reflexivity.
    + pose proof (created_step st o k T G s') as X. rewrite E in X. destruct (X G') as [-> ->]. reflexivity.
  - destruct o as [c id clean|t|c|c subs b|c fs|c m got|c t|c|]; try (destruct r; reflexivity).
    cbn [step] in E. unfold dequeue in E. destruct (session_of st c) as [[k s]|]; [|injection E as <- _; reflexivity].
    destruct t; cbn [queue].
    + destruct (s_tq s) as [|m q]; injection E as <- _; [reflexivity|].
      pose proof (apply_qos_capped (s_subs s) m) as X. unfold qos_capped in X.
      rewrite !andb_true_iff in X. destruct X as [X _]. rewrite !andb_true_iff. exact X.
    + destruct (s_sq s) as [|m q]; injection E as <- _; [reflexivity|].
      pose proof (apply_qos_capped (s_subs s) m) as X. unfold qos_capped in X.
      rewrite !andb_true_iff in X. destruct X as [X _]. rewrite !andb_true_iff. exact X.
Qed.

(* along every history *)
Theorem delivery_along cap ops :
  Forall (fun x => let '(st, o, r, st') := x in delivery_ok st o r st' = true) (trace (init cap) ops).
Proof.
  assert (G : forall ops st, wf st -> Own st -> TempsOk st ->
              Forall (fun x => let '(st, o, r, st') := x in delivery_ok st o r st' = true) (trace st ops)).
  { clear. induction ops as [|o ops IH]; intros st W O T; cbn [trace]; [constructor|].
    pose proof (step_delivery_ok st o W (own_ownok st O) T) as X. pose proof (wf_step st o W) as W1.
    pose proof (tempsok_step st o T) as T1. pose proof (own_step st o O) as O1.
    destruct (step st o) as [r st1]. cbn [snd] in *. constructor; [exact X|apply IH; assumption]. }
  apply G; [apply wf_init|apply own_init|apply tempsok_init].
Qed.

(* the two facts behind it, on the model functions themselves: Unsubscribe changes no queue; Dequeue returns the
   head of the chosen queue (QoS capped) whatever the subscriptions are *)
Theorem unsubscribe_keeps_queues st c fs k s :
  get_session st k = Some s ->
  exists s', get_session (snd (unsubscribe st c fs)) k = Some s' /\ s_tq s' = s_tq s /\ s_sq s' = s_sq s.
Proof.
  intros G. unfold unsubscribe. destruct (session_of st c) as [[k0 s0]|] eqn:S; [|exists s; auto].
  cbn [snd]. rewrite get_put. destruct (skey_eqb k k0) eqn:E; [|exists s; auto].
  apply skey_eqb_eq in E; subst k0. rewrite (session_of_get _ _ _ _ S) in G. injection G as <-.
  eexists; split; [reflexivity|auto].
Qed.

Theorem dequeue_returns_head st c temp k s m rest :
  session_of st c = Some (k, s) -> queue temp s = m :: rest ->
  exists m', fst (dequeue st c temp) = RMsg m' /\
             m_topic m' = m_topic m /\ m_payload m' = m_payload m /\ m_retain m' = m_retain m /\ m_qos m' <= m_qos m /\
             exists s', get_session (snd (dequeue st c temp)) k = Some s' /\ queue temp s' = rest /\
                        queue (negb temp) s' = queue (negb temp) s /\ s_subs s' = s_subs s.
Proof.
  intros S Q. unfold dequeue. rewrite S.
  assert (A : forall subs, m_topic (apply_qos subs m) = m_topic m /\ m_payload (apply_qos subs m) = m_payload m /\
                           m_retain (apply_qos subs m) = m_retain m /\ m_qos (apply_qos subs m) <= m_qos m).
  { intros subs. unfold apply_qos. destruct (pick_sub subs (m_topic m)) as [[f q]|]; [|repeat split; lia].
    destruct (q <? m_qos m) eqn:L; [apply N.ltb_lt in L; cbn; repeat split; lia|repeat split; lia]. }
  destruct temp; cbn [queue negb] in *; rewrite Q; cbn [fst snd];
    (eexists; split; [reflexivity|]); destruct (A (s_subs s)) as (A1 & A2 & A3 & A4); repeat split; auto;
    (eexists; split; [rewrite get_put, skey_eqb_refl; reflexivity|repeat split]).
Qed.
