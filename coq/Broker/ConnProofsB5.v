(* ConnProofsB5.v — C07 exactly-once, part 2: c07_no_publish_after_release holds of
   every accepted trace on which the backend acknowledges promptly (prompt_acks). *)
From Coq Require Import List NArith Bool Lia.
From GM Require Import Base.Lts Codec.Packet Session.Ids Session.Store Session.StoreProofs
  Broker.Conn Broker.ConnSpec Broker.ConnBase Broker.ConnProofsB1 Broker.ConnProofsB2 Broker.ConnProofsB3
  Broker.ConnProofsB4.
Import ListNotations.
Open Scope N_scope.

(* -------------------------------- a clause under a hypothesis on the trace *)

Section ScanSound2.
  Context {T U : Type}.
  Variable f : T -> event -> option T.
  Variable h : U -> event -> option U.
  Variable R : bc -> T -> U -> Prop.
  Hypothesis Hstep : forall s t u e s' u', R s t u -> step s e = Some s' -> h u e = Some u' ->
    exists t', f t e = Some t' /\ R s' t' u'.

  Lemma scan_sound2_from : forall es s t u s', R s t u -> Lts.run step s es = Some s' ->
    scan h u es = true -> scan f t es = true.
  Proof.
    induction es as [|e es IH]; intros s t u s' HR Hrun Hh; cbn [scan]; [reflexivity|].
    cbn [Lts.run] in Hrun. destruct (step s e) as [s1|] eqn:E; [|discriminate].
    cbn [scan] in Hh. destruct (h u e) as [u1|] eqn:Eh; [|discriminate].
    destruct (Hstep s t u e s1 u1 HR E Eh) as (t' & Ef & HR'). rewrite Ef. eapply IH; eassumption.
  Qed.

  Theorem scan_sound2 (t0 : T) (u0 : U) : R bc_init t0 u0 ->
    forall es s', bc_run es = Some s' -> scan h u0 es = true -> scan f t0 es = true.
  Proof. intros H0 es s' Hrun. eapply scan_sound2_from; [exact H0|exact Hrun]. Qed.
End ScanSound2.

(* --------------------------------------------- c07_no_publish_after_release *)

Definition q2_store (sin : store) (rel : list N) : Prop :=
  NoDup rel /\ forall id, In id rel -> store_lookup sin id = None.
Definition q2_pp (x : ppc) (rel : list N) : Prop :=
  match x with
  | PRelPub id _ => ~ In id rel
  | PPub2W p => exists d m id, p = Publish d m id
  | _ => True
  end.
Definition q2_inv (s : bc) (t : q2_st) : Prop :=
  q2_store (s_in (sess s)) (q2_released t) /\ q2_pp (pp s) (q2_released t).
Definition q2_rel (s : bc) (t : q2_st) : Prop := last_rel s (q2_last t) /\ q2_inv s t.

Lemma q2_last_next t e t' : q2_step t e = Some t' -> q2_last t' = lt_next (q2_last t) e.
Proof. intros H. unfold q2_step in H. destruct e; bm H; inv_some H; reflexivity. Qed.

Lemma q2_store_save sin rel d m id :
  q2_store sin rel -> q2_store (store_save sin (Publish d m id)) (nremove1 id rel).
Proof.
  intros [H1 H2]. destruct (nodup_nremove1 id rel H1) as [N1 N2]. split; [exact N1|].
  intros id' Hin. unfold store_save. cbn [get_id]. rewrite lookup_put.
  destruct (id' =? id) eqn:E; [apply N.eqb_eq in E; subst; contradiction|].
  apply H2. eapply in_nremove1, Hin.
Qed.

Lemma q2_store_delete sin rel id : NoDup (keys sin) ->
  q2_store sin rel -> q2_store (store_delete sin id) (if nmem id rel then rel else id :: rel).
Proof.
  intros Hk [H1 H2]. split.
  - destruct (nmem id rel) eqn:E; [exact H1|]. apply nmem_false in E. constructor; assumption.
  - intros id' Hin. rewrite lookup_delete by exact Hk. destruct (id' =? id) eqn:E; [reflexivity|].
    apply H2. destruct (nmem id rel); [exact Hin|]. destruct Hin as [->|Hin]; [rewrite N.eqb_refl in E; discriminate E|exact Hin].
Qed.

Lemma q2_pp_shrink x rel id : q2_pp x rel -> q2_pp x (nremove1 id rel).
Proof. destruct x; cbn [q2_pp]; try exact (fun x => x). intros H Hin. apply H. eapply in_nremove1, Hin. Qed.

Lemma q2_inv_same s s' t : s_in (sess s') = s_in (sess s) -> pp s' = pp s -> q2_inv s t -> q2_inv s' t.
Proof. unfold q2_inv. intros -> ->. exact (fun x => x). Qed.

Lemma q2_inv_done s s' t : s_in (sess s') = s_in (sess s) -> pp s' = PDone -> q2_inv s t -> q2_inv s' t.
Proof. unfold q2_inv. intros -> ->. intros [H _]. split; [exact H|exact I]. Qed.

Lemma q2_clo s t u e s' : inv_c07 s -> pk_inv s u -> q2_inv s t -> step_clo s e = Some s' ->
  exists t', q2_step t e = Some t' /\ q2_inv s' t'.
Proof.
  intros (I1 & I2 & I3) (Hc & Hp & _) [Hs Hq] H. apply step_clo_cases in H.
  destruct H as [k g c id -> Hf Hst Hi Hk -> | k g c -> Hf Hst Hi Hk -> | k g c -> Hf Hst Hi -> | g id c -> Hf ->
                | g id c -> Hf -> | g c -> Hin Hst -> | g c -> Hin Hst -> | k g c -> Hf Hst -> | k g c -> Hf Hst Hi ->];
    try (exists t; split; [reflexivity|]; split; [exact Hs|exact Hq]).
  - exists t. split; [reflexivity|]. unfold q2_inv. rewrite sess_enq.
    unfold clo_enqueue. destruct (clo_live s c); split; assumption.
  - (* the closure releases the handshake *)
    apply clo_del_find_in in Hf. destruct Hf as (Hin & Hst & Hk).
    eexists. split; [reflexivity|]. unfold q2_inv. rewrite sess_enq. cbn [q2_released].
    assert (Epp : pp (set_clos (clo_enqueue (sess_delete s Incoming id) c) (clo_set (clos s) (c_k c) (CRun g))) = pp s)
      by (unfold clo_enqueue; destruct (clo_live _ c); reflexivity).
    rewrite Epp. split; [apply q2_store_delete; assumption|].
    destruct (pp s) eqn:Ex; try exact I; try exact Hq. cbn [q2_pp pk_pp] in *.
    destruct (nmem id (q2_released t)); [exact Hq|]. intros [E|Hin']; [|exact (Hq Hin')]. subst id0.
    destruct Hc as (_ & P2 & _). destruct Hp as [_ Hb]. apply (Hb g). eapply P2; eassumption.
  - exists t. split; [reflexivity|]. destruct (c_conn c =? conn_no s); split; assumption.
Qed.

Lemma q2_proc s t e s' g : gproc s = Some g -> ev_g e = Some g ->
  plast (pp s) (aget (q2_last t) g) -> q2_inv s t -> step_proc s e = Some s' ->
  exists t', q2_step t e = Some t' /\ q2_inv s' t'.
Proof.
  intros Hg Heg HL [Hs Hq] H.
  unfold step_proc, proc_dispatch, die_p, guard, take_pub, take_sub, clo_reg, take_deq_if_any, take_deq in H.
  destruct (pp s) eqn:Epp; destruct e; try discriminate H; bm H; inv_some H;
    cbn [ev_g] in Heg; injection Heg as Heg; subst;
    try (eexists; split; [reflexivity|]; unfold q2_inv; sf; cbn [q2_released q2_pp];
         split; solve [assumption | exact I | eauto]).
  - (* ESetup, fresh session *)
    eexists; split; [reflexivity|]. unfold q2_inv; sf. cbn [session_new s_in q2_pp]. split; [|exact I].
    destruct Hs as [H1 _]. split; [exact H1|reflexivity].
  - (* PPub1W *)
    destruct HL as (d & m' & HL). exists t. split; [cbn [q2_step]; rewrite HL; reflexivity|].
    unfold q2_inv; sf. split; [exact Hs|exact I].
  - (* PPub2W, saved *)
    destruct Hq as (d & m & id & ->). apply packet_eqb_eq in Heqb. subst p0. cbn [get_id] in Heqo. injection Heqo as <-.
    eexists. split; [reflexivity|]. unfold q2_inv; sf. cbn [q2_released q2_pp sess_with s_in].
    split; [apply q2_store_save, Hs|exact I].
  - (* PPub2W, save failed *)
    exists t. split; [destruct p0; reflexivity|]. unfold q2_inv; sf. split; [exact Hs|exact I].
  - (* PRelLookup, found *)
    exists t. split; [reflexivity|]. unfold q2_inv; sf. split; [exact Hs|]. cbn [q2_pp].
    apply andb_true_iff in Heqb. destruct Heqb as [E1 E2]. intros Hin. destruct Hs as [_ H2].
    rewrite (H2 _ Hin) in E2. discriminate E2.
  - (* PRelPub *)
    cbn [plast] in HL. cbn [q2_pp] in Hq. exists t. split.
    + cbn [q2_step]. rewrite HL. apply nmem_false in Hq. rewrite Hq. reflexivity.
    + unfold q2_inv; sf. split; [exact Hs|exact I].
Qed.

Lemma q2_inv_hstep s t u e s' : inv_c07 s -> pk_inv s u -> q2_rel s t -> step s e = Some s' ->
  exists t', q2_step t e = Some t' /\ q2_inv s' t'.
Proof.
  intros Hi Hpk [HL HR] H. apply step_cases in H.
  destruct H as [-> _ -> | -> _ -> | -> _ -> | H | -> H
                | g s1 _ Hev _ _ Hv H | g s1 _ _ _ _ _ Hv H | g s1 _ _ _ _ _ _ Hv H | g s1 _ _ _ _ _ _ _ Hv H
                | g -> _ _ _ _ ->].
  - eexists. split; [reflexivity|]. destruct HR as [H1 _]. split; [exact H1|exact I].
  - exists t. split; [reflexivity|exact HR].
  - exists t. split; [reflexivity|exact HR].
  - eapply q2_clo; eassumption.
  - exists t. split; [reflexivity|].
    apply step_cleanup_frame in H. destruct H as (_ & Hs & _ & _ & _ & _ & [Hp|Hp] & _).
    + eapply q2_inv_same; [rewrite Hs; reflexivity|exact Hp|exact HR].
    + eapply q2_inv_done; [rewrite Hs; reflexivity|exact Hp|exact HR].
  - assert (Hg1 : gproc s1 = Some g) by (destruct Hv as [[-> Hg]|(_ & _ & -> & _)]; [exact Hg|reflexivity]).
    assert (HL1 : plast (pp s1) (aget (q2_last t) g)).
    { destruct Hv as [[-> Hg]|(Hn & _ & -> & _)]; unfold last_rel in HL.
      - rewrite Hg in HL. exact HL.
      - rewrite Hn in HL. apply plast_none. exact HL. }
    assert (HR1 : q2_inv s1 t) by (destruct Hv as [[-> _]|(_ & _ & -> & _)]; exact HR).
    eapply q2_proc; eassumption.
  - exists t. split.
    + apply step_deq_event in H. destruct e; try contradiction; try reflexivity. destruct d; [contradiction|reflexivity].
    + apply step_deq_frame in H. destruct H as (Hs & _ & Hp & _).
      eapply q2_inv_same; [exact Hs|exact Hp|]. destruct Hv as [[-> _]|(_ & _ & ->)]; exact HR.
  - exists t. split.
    + apply step_ack_event in H. destruct e; try contradiction; reflexivity.
    + apply step_ack_frame in H. destruct H as (Hs & _ & Hp & _).
      eapply q2_inv_same; [rewrite Hs; reflexivity|exact Hp|]. destruct Hv as [[-> _]|(_ & _ & ->)]; exact HR.
  - exists t. split.
    + apply step_cleanup_event in H. destruct e; try discriminate H; try reflexivity; destruct k; try discriminate H; reflexivity.
    + apply step_cleanup_frame in H. destruct H as (_ & Hs & _ & _ & _ & _ & [Hp|Hp] & _).
      * eapply q2_inv_same; [rewrite Hs; reflexivity|exact Hp|]. destruct Hv as [[-> _]|(_ & _ & ->)]; exact HR.
      * eapply q2_inv_done; [rewrite Hs; reflexivity|exact Hp|]. destruct Hv as [[-> _]|(_ & _ & ->)]; exact HR.
  - exists t. split; [reflexivity|exact HR].
Qed.

Definition q2_R (s : bc) (t : q2_st) (u : pk_st) : Prop := inv_c07 s /\ pk_rel s u /\ q2_rel s t.

Lemma q2_hstep s t u e s' u' : q2_R s t u -> step s e = Some s' -> pk_step u e = Some u' ->
  exists t', q2_step t e = Some t' /\ q2_R s' t' u'.
Proof.
  intros (Hi & Hpk & Hq) H Hu.
  destruct (q2_inv_hstep _ _ _ _ _ Hi (proj2 Hpk) Hq H) as (t' & Et & Hq').
  exists t'. split; [exact Et|]. split; [eapply inv_c07_step; eassumption|]. split.
  - eapply pk_hstep; eassumption.
  - split; [|exact Hq']. rewrite (q2_last_next _ _ _ Et). apply (last_hstep _ _ _ _ (proj1 Hq) H).
Qed.

Theorem no_publish_after_release_partial : forall es s,
  bc_run es = Some s -> prompt_acks es = true -> c07_no_publish_after_release es = true.
Proof.
  unfold prompt_acks, c07_no_publish_after_release.
  apply (scan_sound2 q2_step pk_step q2_R q2_hstep).
  split; [exact inv_c07_init|]. split; [exact pk_rel_init|].
  split; [exact I|]. split; [|exact I]. split; [constructor|intros id []].
Qed.
