(* ConnProofsB0.v — C07: observed traces of the implementation (recorded by
   go/cmd/brokerconn, family c07) and constructed traces as witnesses: the
   refutations of c07_no_publish_after_release and c07_single_ack for backends that
   acknowledge late, and the non-vacuity examples of the C07 theorems.
   Everything here is by computation. *)
From Coq Require Import List NArith Bool.
From Coq.Strings Require Import Byte.
From GM Require Import Base.Lts Codec.Packet Session.Store Broker.Conn Broker.ConnSpec.
Import ListNotations.
Open Scope N_scope.

Definition accepted (es : list event) : bool :=
  match bc_run es with Some _ => true | None => false end.

(* observed traces:
   tr_handshake             c07/P1.R1, synchronous backend: a full QoS 2 handshake
   tr_pubrel_retx           c07/P1.R1.R1: the retransmitted PUBREL is answered directly with PUBCOMP
   tr_pubcomp_write_fails   c07/pubcomp-write-fails: the PUBCOMP write fails, the client resumes the
                            session and retransmits PUBREL: answered directly, no second backend Publish
   tr_late_ack              c07/late-ack-across-pubrel: the backend acknowledges late, the PUBREL is
                            processed again before the first acknowledgement: two hand-overs, both acknowledged
   tr_delete_fails          c07/P1.R1.P1d-fq4: the closure's removal of the stored PUBLISH fails *)
Definition tr_handshake : list event :=
  [ ENewConn;
    ERx 2 (Connect (Conn [x63] 0 [] [] false None 4));
    EAuth 2 AOk;
    ESetup 2 (SOk false false 10 10 10);
    ETx 2 (Connack false 0) false true;
    EAll 2 Outgoing (Some []);
    ERestore 2 true;
    EDeqCall 3;
    ERx 2 (Publish false (Msg [x74] [x01] 2 false) 1);
    ESave 2 Incoming (Publish false (Msg [x74] [x01] 2 false) 1) true;
    ETx 2 (Pubrec 1) true true;
    ERx 2 (Pubrel 1);
    ELookup 2 Incoming 1 (LRes (Some (Publish false (Msg [x74] [x01] 2 false) 1)));
    EPub 2 (Msg [x74] [x01] 2 false) (Some 1);
    EAckCall 1 2;
    EDelete 2 Incoming 1 true;
    EAckRet 1 2;
    EPubRet 2 true;
    ETx 4 (Pubcomp 1) true true;
    EQuiescent;
    ERxErr 2;
    EDie 2 KTransport;
    EConnClose 2;
    EDeqRet 3 QNone;
    ETerm 5 true;
    EClosed ].
Definition tr_pubrel_retx : list event :=
  [ ENewConn;
    ERx 2 (Connect (Conn [x63] 0 [] [] false None 4));
    EAuth 2 AOk;
    ESetup 2 (SOk false false 10 10 10);
    ETx 2 (Connack false 0) false true;
    EAll 2 Outgoing (Some []);
    ERestore 2 true;
    EDeqCall 3;
    ERx 2 (Publish false (Msg [x74] [x01] 2 false) 1);
    ESave 2 Incoming (Publish false (Msg [x74] [x01] 2 false) 1) true;
    ETx 2 (Pubrec 1) true true;
    ERx 2 (Pubrel 1);
    ELookup 2 Incoming 1 (LRes (Some (Publish false (Msg [x74] [x01] 2 false) 1)));
    EPub 2 (Msg [x74] [x01] 2 false) (Some 1);
    EAckCall 1 2;
    EDelete 2 Incoming 1 true;
    EAckRet 1 2;
    EPubRet 2 true;
    ETx 4 (Pubcomp 1) true true;
    ERx 2 (Pubrel 1);
    ELookup 2 Incoming 1 (LRes None);
    ETx 2 (Pubcomp 1) true true;
    EQuiescent;
    ERxErr 2;
    EDie 2 KTransport;
    EConnClose 2;
    EDeqRet 3 QNone;
    ETerm 5 true;
    EClosed ].
Definition tr_pubcomp_write_fails : list event :=
  [ ENewConn;
    ERx 2 (Connect (Conn [x63] 0 [] [] false None 4));
    EAuth 2 AOk;
    ESetup 2 (SOk false false 10 10 10);
    ETx 2 (Connack false 0) false true;
    EAll 2 Outgoing (Some []);
    ERestore 2 true;
    EDeqCall 3;
    ERx 2 (Publish false (Msg [x74] [x01] 2 false) 1);
    ESave 2 Incoming (Publish false (Msg [x74] [x01] 2 false) 1) true;
    ETx 2 (Pubrec 1) true true;
    ERx 2 (Pubrel 1);
    ELookup 2 Incoming 1 (LRes (Some (Publish false (Msg [x74] [x01] 2 false) 1)));
    EPub 2 (Msg [x74] [x01] 2 false) (Some 1);
    EAckCall 1 2;
    EDelete 2 Incoming 1 true;
    EAckRet 1 2;
    EPubRet 2 true;
    ETx 4 (Pubcomp 1) true false;
    EDie 4 KTransport;
    EConnClose 4;
    EDeqRet 3 QNone;
    ERxErr 2;
    EDie 2 KTransport;
    EConnClose 2;
    ETerm 5 true;
    EClosed;
    ENewConn;
    ERx 6 (Connect (Conn [x63] 0 [] [] false None 4));
    EAuth 6 AOk;
    ESetup 6 (SOk true false 10 10 10);
    ETx 6 (Connack true 0) false true;
    EAll 6 Outgoing (Some []);
    ERestore 6 true;
    EDeqCall 7;
    ERx 6 (Pubrel 1);
    ELookup 6 Incoming 1 (LRes None);
    ETx 6 (Pubcomp 1) true true;
    EQuiescent;
    ERxErr 6;
    EDie 6 KTransport;
    EConnClose 6;
    EDeqRet 7 QNone;
    ETerm 8 true;
    EClosed ].
Definition tr_late_ack : list event :=
  [ ENewConn;
    ERx 2 (Connect (Conn [x63] 0 [] [] false None 4));
    EAuth 2 AOk;
    ESetup 2 (SOk false false 10 10 10);
    ETx 2 (Connack false 0) false true;
    EAll 2 Outgoing (Some []);
    ERestore 2 true;
    EDeqCall 3;
    ERx 2 (Publish false (Msg [x74] [x01] 2 false) 1);
    ESave 2 Incoming (Publish false (Msg [x74] [x01] 2 false) 1) true;
    ETx 2 (Pubrec 1) true true;
    ERx 2 (Pubrel 1);
    ELookup 2 Incoming 1 (LRes (Some (Publish false (Msg [x74] [x01] 2 false) 1)));
    EPub 2 (Msg [x74] [x01] 2 false) (Some 1);
    EPubRet 2 true;
    ERx 2 (Pubrel 1);
    ELookup 2 Incoming 1 (LRes (Some (Publish false (Msg [x74] [x01] 2 false) 1)));
    EPub 2 (Msg [x74] [x01] 2 false) (Some 2);
    EPubRet 2 true;
    EAckCall 1 1;
    EDelete 1 Incoming 1 true;
    EAckRet 1 1;
    ETx 4 (Pubcomp 1) true true;
    EAckCall 2 1;
    EDelete 1 Incoming 1 true;
    EAckRet 2 1;
    ETx 4 (Pubcomp 1) true true;
    EQuiescent;
    ERxErr 2;
    EDie 2 KTransport;
    EConnClose 2;
    EDeqRet 3 QNone;
    ETerm 5 true;
    EClosed ].
Definition tr_delete_fails : list event :=
  [ ENewConn;
    ERx 2 (Connect (Conn [x63] 0 [] [] false None 4));
    EAuth 2 AOk;
    ESetup 2 (SOk false false 10 10 10);
    ETx 2 (Connack false 0) false true;
    EAll 2 Outgoing (Some []);
    ERestore 2 true;
    EDeqCall 3;
    ERx 2 (Publish false (Msg [x74] [x01] 2 false) 1);
    ESave 2 Incoming (Publish false (Msg [x74] [x01] 2 false) 1) true;
    ETx 2 (Pubrec 1) true true;
    ERx 2 (Pubrel 1);
    ELookup 2 Incoming 1 (LRes (Some (Publish false (Msg [x74] [x01] 2 false) 1)));
    EPub 2 (Msg [x74] [x01] 2 false) (Some 1);
    EAckCall 1 2;
    EDelete 2 Incoming 1 false;
    EDie 2 KSession;
    EConnClose 2;
    EAckRet 1 2;
    EPubRet 2 true;
    EDeqRet 3 QNone;
    ETerm 4 true;
    EClosed ].

Definition all_c07 (es : list event) : bool :=
  c07_pubrec_after_store es && c07_no_publish_after_release es && c07_single_ack es && c07_pubrel_answered es.

Example tr_handshake_ok :
  accepted tr_handshake = true /\ prompt_acks tr_handshake = true /\ all_c07 tr_handshake = true.
Proof. vm_compute. repeat (split; try reflexivity). Qed.

Example tr_pubrel_retx_ok :
  accepted tr_pubrel_retx = true /\ prompt_acks tr_pubrel_retx = true /\ all_c07 tr_pubrel_retx = true.
Proof. vm_compute. repeat (split; try reflexivity). Qed.

Example tr_pubcomp_write_fails_ok :
  accepted tr_pubcomp_write_fails = true /\ prompt_acks tr_pubcomp_write_fails = true /\
  all_c07 tr_pubcomp_write_fails = true.
Proof. vm_compute. repeat (split; try reflexivity). Qed.

Example tr_delete_fails_ok :
  accepted tr_delete_fails = true /\ prompt_acks tr_delete_fails = true /\ all_c07 tr_delete_fails = true.
Proof. vm_compute. repeat (split; try reflexivity). Qed.

Example tr_late_ack_ok :
  accepted tr_late_ack = true /\ prompt_acks tr_late_ack = false /\
  c07_pubrec_after_store tr_late_ack = true /\ c07_pubrel_answered tr_late_ack = true /\
  c07_no_publish_after_release tr_late_ack = true /\ c07_single_ack tr_late_ack = false.
Proof. vm_compute. repeat (split; try reflexivity). Qed.

(* ---- constructed traces (accepted by the model) ---- *)
Definition m1 := Msg [x74] [x01] 2 false.
Definition tr_pre : list event :=
  [ ENewConn;
    ERx 2 (Connect (Conn [x63] 0 [] [] false None 4));
    EAuth 2 AOk;
    ESetup 2 (SOk false false 10 10 10);
    ETx 2 (Connack false 0) false true;
    EAll 2 Outgoing (Some []);
    ERestore 2 true;
    ERx 2 (Publish false m1 1);
    ESave 2 Incoming (Publish false m1 1) true;
    ETx 2 (Pubrec 1) true true;
    ERx 2 (Pubrel 1);
    ELookup 2 Incoming 1 (LRes (Some (Publish false m1 1)));
    EPub 2 m1 (Some 1)].

(* a late acknowledgement from another goroutine releases the handshake between the
   processor's Lookup of the stored PUBLISH and its backend Publish for a retransmitted PUBREL *)
Definition tr_race := tr_pre ++ [
    EPubRet 2 true;
    ERx 2 (Pubrel 1);
    ELookup 2 Incoming 1 (LRes (Some (Publish false m1 1)));
    EAckCall 1 9; EDelete 9 Incoming 1 true; EAckRet 1 9;
    EPub 2 m1 (Some 2)].

(* the same with the closure already invoked when the PUBREL is looked up again *)
Definition tr_race_busy := tr_pre ++ [
    EPubRet 2 true;
    EAckCall 1 9;
    ERx 2 (Pubrel 1);
    ELookup 2 Incoming 1 (LRes (Some (Publish false m1 1)));
    EDelete 9 Incoming 1 true; EAckRet 1 9;
    EPub 2 m1 (Some 2)].

(* a synchronous backend; the closure's removal of the stored PUBLISH fails, the
   connection dies, the client resumes and retransmits PUBREL: a second backend
   Publish, acknowledged again; the handshake was never released, so this is allowed *)
Definition tr_delfail_resume := tr_pre ++ [
    EAckCall 1 2; EDelete 2 Incoming 1 false; EDie 2 KSession; EConnClose 2; EAckRet 1 2; EPubRet 2 true;
    ETerm 4 true; EClosed; ENewConn;
    ERx 6 (Connect (Conn [x63] 0 [] [] false None 4));
    EAuth 6 AOk;
    ESetup 6 (SOk true false 10 10 10);
    ETx 6 (Connack true 0) false true;
    EAll 6 Outgoing (Some []);
    ERestore 6 true;
    EDeqCall 7;
    ERx 6 (Pubrel 1);
    ELookup 6 Incoming 1 (LRes (Some (Publish false m1 1)));
    EPub 6 m1 (Some 2);
    EAckCall 2 6; EDelete 6 Incoming 1 true; EAckRet 2 6; EPubRet 6 true;
    ETx 8 (Pubcomp 1) true true; EQuiescent].

(* a backend that never acknowledges: quiescent with the PUBREL unanswered, allowed *)
Definition tr_never_ack := tr_pre ++ [EPubRet 2 true; EDeqCall 3; EQuiescent].

Example tr_race_ok :
  accepted tr_race = true /\ prompt_acks tr_race = false /\ c07_no_publish_after_release tr_race = false.
Proof. vm_compute. repeat (split; try reflexivity). Qed.
Example tr_race_busy_ok :
  accepted tr_race_busy = true /\ prompt_acks tr_race_busy = false /\
  c07_no_publish_after_release tr_race_busy = false.
Proof. vm_compute. repeat (split; try reflexivity). Qed.
Example tr_delfail_resume_ok :
  accepted tr_delfail_resume = true /\ prompt_acks tr_delfail_resume = true /\ all_c07 tr_delfail_resume = true.
Proof. vm_compute. repeat (split; try reflexivity). Qed.
Example tr_never_ack_ok :
  accepted tr_never_ack = true /\ prompt_acks tr_never_ack = true /\ all_c07 tr_never_ack = true.
Proof. vm_compute. repeat (split; try reflexivity). Qed.

Lemma refute (P : list event -> bool) (es : list event) :
  accepted es = true -> P es = false -> exists es s, bc_run es = Some s /\ P es = false.
Proof.
  unfold accepted. intros Ha Hp. destruct (bc_run es) as [s|] eqn:E; [|discriminate Ha].
  exists es, s. split; [exact E|exact Hp].
Qed.

(* both exactly-once clauses are FALSE of the model (and of the code: open known
   finding) when the backend acknowledges late *)
Lemma single_ack_refuted : exists es s, bc_run es = Some s /\ c07_single_ack es = false.
Proof. apply (refute _ tr_late_ack); vm_compute; reflexivity. Qed.
Lemma no_publish_after_release_refuted :
  exists es s, bc_run es = Some s /\ c07_no_publish_after_release es = false.
Proof. apply (refute _ tr_race); vm_compute; reflexivity. Qed.
