(* ConnProofsB0.v — C07: observed traces of the implementation (recorded by
   go/cmd/brokerconn, family c07) as witnesses: the refutation of c07_single_ack
   and the non-vacuity examples of the C07 theorems.  Everything here is by
   computation. *)
From Coq Require Import List NArith Bool.
From Coq.Strings Require Import Byte.
From GM Require Import Base.Lts Codec.Packet Session.Store Broker.Conn Broker.ConnSpec.
Import ListNotations.
Open Scope N_scope.

Definition accepted (es : list event) : bool :=
  match bc_run es with Some _ => true | None => false end.

(* scenario c07/P1.R1, synchronous backend: a full QoS 2 handshake *)
(* scenario c07/P1.R1.R1: the retransmitted PUBREL is answered directly with PUBCOMP *)
(* scenario c07/pubcomp-write-fails: the PUBCOMP write fails, the client resumes the
   session and retransmits PUBREL: answered directly, no second backend Publish *)
(* scenario c07/late-ack-across-pubrel: the backend acknowledges late, the PUBREL is
   processed again before the first acknowledgement: two acknowledged hand-overs *)
Definition tr_handshake : list event :=
  [ ENewConn;
    ERx 2 (Connect (Conn [x63] 0 [] [] false None 4));
    EAuth 2 AOk;
    ESetup 2 (SOk false false 10 10 10);
    ETx 2 (Connack false 0) false true;
    EAll 2 Outgoing (Some []);
    ERestore 2 true;
    EDeqCall 3;
    ERx 2 (Publish false (Msg [x74] [x01] 2 false) 1);
    ESave 2 Incoming (Publish false (Msg [x74] [x01] 2 false) 1) true;
    ETx 2 (Pubrec 1) true true;
    ERx 2 (Pubrel 1);
    ELookup 2 Incoming 1 (LRes (Some (Publish false (Msg [x74] [x01] 2 false) 1)));
    EPub 2 (Msg [x74] [x01] 2 false) (Some 1);
    EAckCall 1 2;
    EDelete 2 Incoming 1 true;
    EAckRet 1;
    EPubRet 2 true;
    ETx 4 (Pubcomp 1) true true;
    EQuiescent;
    ERxErr 2;
    EDie 2 KTransport;
    EConnClose 2;
    EDeqRet 3 QNone;
    ETerm 5 true;
    EClosed ].
Definition tr_pubrel_retx : list event :=
  [ ENewConn;
    ERx 2 (Connect (Conn [x63] 0 [] [] false None 4));
    EAuth 2 AOk;
    ESetup 2 (SOk false false 10 10 10);
    ETx 2 (Connack false 0) false true;
    EAll 2 Outgoing (Some []);
    ERestore 2 true;
    EDeqCall 3;
    ERx 2 (Publish false (Msg [x74] [x01] 2 false) 1);
    ESave 2 Incoming (Publish false (Msg [x74] [x01] 2 false) 1) true;
    ETx 2 (Pubrec 1) true true;
    ERx 2 (Pubrel 1);
    ELookup 2 Incoming 1 (LRes (Some (Publish false (Msg [x74] [x01] 2 false) 1)));
    EPub 2 (Msg [x74] [x01] 2 false) (Some 1);
    EAckCall 1 2;
    EDelete 2 Incoming 1 true;
    EAckRet 1;
    EPubRet 2 true;
    ETx 4 (Pubcomp 1) true true;
    ERx 2 (Pubrel 1);
    ELookup 2 Incoming 1 (LRes None);
    ETx 2 (Pubcomp 1) true true;
    EQuiescent;
    ERxErr 2;
    EDie 2 KTransport;
    EConnClose 2;
    EDeqRet 3 QNone;
    ETerm 5 true;
    EClosed ].
Definition tr_pubcomp_write_fails : list event :=
  [ ENewConn;
    ERx 2 (Connect (Conn [x63] 0 [] [] false None 4));
    EAuth 2 AOk;
    ESetup 2 (SOk false false 10 10 10);
    ETx 2 (Connack false 0) false true;
    EAll 2 Outgoing (Some []);
    ERestore 2 true;
    EDeqCall 3;
    ERx 2 (Publish false (Msg [x74] [x01] 2 false) 1);
    ESave 2 Incoming (Publish false (Msg [x74] [x01] 2 false) 1) true;
    ETx 2 (Pubrec 1) true true;
    ERx 2 (Pubrel 1);
    ELookup 2 Incoming 1 (LRes (Some (Publish false (Msg [x74] [x01] 2 false) 1)));
    EPub 2 (Msg [x74] [x01] 2 false) (Some 1);
    EAckCall 1 2;
    EDelete 2 Incoming 1 true;
    EAckRet 1;
    EPubRet 2 true;
    ETx 4 (Pubcomp 1) true false;
    EDie 4 KTransport;
    EConnClose 4;
    EDeqRet 3 QNone;
    ERxErr 2;
    EDie 2 KTransport;
    EConnClose 2;
    ETerm 5 true;
    EClosed;
    ENewConn;
    ERx 6 (Connect (Conn [x63] 0 [] [] false None 4));
    EAuth 6 AOk;
    ESetup 6 (SOk true false 10 10 10);
    ETx 6 (Connack true 0) false true;
    EAll 6 Outgoing (Some []);
    ERestore 6 true;
    EDeqCall 7;
    ERx 6 (Pubrel 1);
    ELookup 6 Incoming 1 (LRes None);
    ETx 6 (Pubcomp 1) true true;
    EQuiescent;
    ERxErr 6;
    EDie 6 KTransport;
    EConnClose 6;
    EDeqRet 7 QNone;
    ETerm 8 true;
    EClosed ].
Definition tr_late_ack : list event :=
  [ ENewConn;
    ERx 2 (Connect (Conn [x63] 0 [] [] false None 4));
    EAuth 2 AOk;
    ESetup 2 (SOk false false 10 10 10);
    ETx 2 (Connack false 0) false true;
    EAll 2 Outgoing (Some []);
    ERestore 2 true;
    EDeqCall 3;
    ERx 2 (Publish false (Msg [x74] [x01] 2 false) 1);
    ESave 2 Incoming (Publish false (Msg [x74] [x01] 2 false) 1) true;
    ETx 2 (Pubrec 1) true true;
    ERx 2 (Pubrel 1);
    ELookup 2 Incoming 1 (LRes (Some (Publish false (Msg [x74] [x01] 2 false) 1)));
    EPub 2 (Msg [x74] [x01] 2 false) (Some 1);
    EPubRet 2 true;
    ERx 2 (Pubrel 1);
    ELookup 2 Incoming 1 (LRes (Some (Publish false (Msg [x74] [x01] 2 false) 1)));
    EPub 2 (Msg [x74] [x01] 2 false) (Some 2);
    EPubRet 2 true;
    EAckCall 1 1;
    EDelete 1 Incoming 1 true;
    EAckRet 1;
    ETx 4 (Pubcomp 1) true true;
    EAckCall 2 1;
    EDelete 1 Incoming 1 true;
    EAckRet 2;
    ETx 4 (Pubcomp 1) true true;
    EQuiescent;
    ERxErr 2;
    EDie 2 KTransport;
    EConnClose 2;
    EDeqRet 3 QNone;
    ETerm 5 true;
    EClosed ].

Definition all_c07 (es : list event) : bool :=
  c07_pubrec_after_store es && c07_no_publish_after_ack es && c07_pubrel_answered es.

Example tr_handshake_ok :
  accepted tr_handshake = true /\ all_c07 tr_handshake = true /\
  sync_acks tr_handshake = true /\ c07_single_ack tr_handshake = true.
Proof. vm_compute. repeat (split; try reflexivity). Qed.

Example tr_pubrel_retx_ok :
  accepted tr_pubrel_retx = true /\ all_c07 tr_pubrel_retx = true /\
  sync_acks tr_pubrel_retx = true /\ c07_single_ack tr_pubrel_retx = true.
Proof. vm_compute. repeat (split; try reflexivity). Qed.

Example tr_pubcomp_write_fails_ok :
  accepted tr_pubcomp_write_fails = true /\ all_c07 tr_pubcomp_write_fails = true /\
  sync_acks tr_pubcomp_write_fails = true /\ c07_single_ack tr_pubcomp_write_fails = true.
Proof. vm_compute. repeat (split; try reflexivity). Qed.

Example tr_late_ack_ok :
  accepted tr_late_ack = true /\ all_c07 tr_late_ack = true /\
  sync_acks tr_late_ack = false /\ c07_single_ack tr_late_ack = false.
Proof. vm_compute. repeat (split; try reflexivity). Qed.

(* c07_single_ack is FALSE of the model (and of the code: open known finding) *)
Lemma single_ack_refuted : exists es s, bc_run es = Some s /\ c07_single_ack es = false.
Proof.
  destruct (bc_run tr_late_ack) as [s|] eqn:E.
  - exists tr_late_ack, s. split; [exact E|vm_compute; reflexivity].
  - vm_compute in E. discriminate E.
Qed.

(* ---- further refutations (constructed, accepted by the model) ---- *)
Definition m1 := Msg [x74] [x01] 2 false.
Definition tr_pre : list event :=
  [ ENewConn;
    ERx 2 (Connect (Conn [x63] 0 [] [] false None 4));
    EAuth 2 AOk;
    ESetup 2 (SOk false false 10 10 10);
    ETx 2 (Connack false 0) false true;
    EAll 2 Outgoing (Some []);
    ERestore 2 true;
    ERx 2 (Publish false m1 1);
    ESave 2 Incoming (Publish false m1 1) true;
    ETx 2 (Pubrec 1) true true;
    ERx 2 (Pubrel 1);
    ELookup 2 Incoming 1 (LRes (Some (Publish false m1 1)));
    EPub 2 m1 (Some 1)].

(* a late acknowledgement from another goroutine completes between the processor's
   Lookup of the stored PUBLISH and its backend Publish for a retransmitted PUBREL *)
Definition tr_race := tr_pre ++ [
    EPubRet 2 true;
    ERx 2 (Pubrel 1);
    ELookup 2 Incoming 1 (LRes (Some (Publish false m1 1)));
    EAckCall 1 9; EDelete 9 Incoming 1 true; EAckRet 1;
    EPub 2 m1 (Some 2)].

(* the closure has removed the PUBLISH and queued PUBCOMP but not yet returned when
   the publisher starts a new handshake with the same id (a scanner artefact: q2
   counts the acknowledgement at EAckRet) *)
Definition tr_save_before_ackret := tr_pre ++ [
    EPubRet 2 true; EAckCall 1 9; EDelete 9 Incoming 1 true;
    ETx 4 (Pubcomp 1) true true;
    ERx 2 (Publish false m1 1);
    ESave 2 Incoming (Publish false m1 1) true;
    ETx 2 (Pubrec 1) true true;
    EAckRet 1;
    ERx 2 (Pubrel 1);
    ELookup 2 Incoming 1 (LRes (Some (Publish false m1 1)));
    EPub 2 m1 (Some 2)].

(* a synchronous backend; the closure's removal of the stored PUBLISH fails, the
   connection dies, the client resumes and retransmits PUBREL: a second backend
   Publish, acknowledged again *)
Definition tr_delfail_resume := tr_pre ++ [
    EAckCall 1 2; EDelete 2 Incoming 1 false; EDie 2 KSession; EConnClose 2; EAckRet 1; EPubRet 2 true;
    ETerm 4 true; EClosed; ENewConn;
    ERx 6 (Connect (Conn [x63] 0 [] [] false None 4));
    EAuth 6 AOk;
    ESetup 6 (SOk true false 10 10 10);
    ETx 6 (Connack true 0) false true;
    EAll 6 Outgoing (Some []);
    ERestore 6 true;
    ERx 6 (Pubrel 1);
    ELookup 6 Incoming 1 (LRes (Some (Publish false m1 1)));
    EPub 6 m1 (Some 2);
    EAckCall 2 6; EDelete 6 Incoming 1 true; EAckRet 2; EPubRet 6 true].

(* the model lets a closure invoked on goroutine 2 linger while goroutine 2 goes on *)
Definition tr_linger := tr_pre ++ [
    EAckCall 1 2;
    EPubRet 2 true;
    ERx 2 (Pubrel 1);
    ELookup 2 Incoming 1 (LRes (Some (Publish false m1 1)));
    EDelete 2 Incoming 1 true; EAckRet 1;
    EPub 2 m1 (Some 2)].

(* EQuiescent is accepted by the model while the processor is in the middle of a PUBREL *)
Definition tr_quiescent_midway := firstn 11 tr_pre ++ [EQuiescent].

Example tr_race_ok :
  accepted tr_race = true /\ c07_no_publish_after_ack tr_race = false /\ sync_acks tr_race = false.
Proof. vm_compute. repeat (split; try reflexivity). Qed.
Example tr_save_before_ackret_ok :
  accepted tr_save_before_ackret = true /\ c07_no_publish_after_ack tr_save_before_ackret = false.
Proof. vm_compute. repeat (split; try reflexivity). Qed.
Example tr_delfail_resume_ok :
  accepted tr_delfail_resume = true /\ sync_acks tr_delfail_resume = true /\
  c07_no_publish_after_ack tr_delfail_resume = true /\ c07_single_ack tr_delfail_resume = false.
Proof. vm_compute. repeat (split; try reflexivity). Qed.
Example tr_linger_ok :
  accepted tr_linger = true /\ sync_acks tr_linger = true /\ c07_no_publish_after_ack tr_linger = false.
Proof. vm_compute. repeat (split; try reflexivity). Qed.

Lemma refute (P : list event -> bool) (es : list event) :
  accepted es = true -> P es = false -> exists es s, bc_run es = Some s /\ P es = false.
Proof.
  unfold accepted. intros Ha Hp. destruct (bc_run es) as [s|] eqn:E; [|discriminate Ha].
  exists es, s. split; [exact E|exact Hp].
Qed.

Lemma no_publish_after_ack_refuted : exists es s, bc_run es = Some s /\ c07_no_publish_after_ack es = false.
Proof. apply (refute _ tr_race); vm_compute; reflexivity. Qed.
(*Lemma pubrel_answered_refuted : exists es s, bc_run es = Some s /\ c07_pubrel_answered es = false.
Proof. apply (refute _ tr_quiescent_midway); vm_compute; reflexivity. Qed.*)
Lemma single_ack_sync_refuted :
  exists es s, bc_run es = Some s /\ (sync_acks es && negb (c07_single_ack es)) = true.
Proof.
  destruct (refute (fun es => negb (sync_acks es && negb (c07_single_ack es))) tr_delfail_resume) as (es & s & H1 & H2);
    [vm_compute; reflexivity|vm_compute; reflexivity|].
  exists es, s. split; [exact H1|]. apply negb_false_iff in H2. exact H2.
Qed.
