(* BackendProofsPublish.v — well-formed states, and the Publish step against the
   clauses targets_ok / live_copy_ok of BackendSpec.v. *)
From Coq Require Import List NArith Bool Lia.
From Coq.Strings Require Import Byte.
From GM Require Import Codec.Packet Topic.MatchSpec Broker.Backend Broker.BackendSpec Broker.BackendProofs.
Import ListNotations.
Open Scope N_scope.

(* the three Go maps are maps *)
Definition wf (st : state) : Prop :=
  NoDup (map fst (st_temps st)) /\ NoDup (map fst (st_stored st)) /\ NoDup (map fst (st_retained st)).

Lemma in_sessions st k s :
  In (k, s) (sessions st) <->
  (exists c, k = KTemp c /\ In (c, s) (st_temps st)) \/ (exists i, k = KStored i /\ In (i, s) (st_stored st)).
Proof.
  unfold sessions. rewrite in_app_iff, !in_map_iff. split.
  - intros [[[c s'] [E H]]|[[i s'] [E H]]]; cbn [fst snd] in E; injection E as <- <-; [left; exists c|right; exists i]; auto.
  - intros [[c [-> H]]|[i [-> H]]]; [left; exists (c, s)|right; exists (i, s)]; auto.
Qed.

Lemma sessions_get st k s : wf st -> In (k, s) (sessions st) -> get_session st k = Some s.
Proof.
  intros (Wt & Ws & _) H. apply in_sessions in H as [[c [-> H]]|[i [-> H]]]; cbn [get_session].
  - apply (In_alookup N.eqb N.eqb_eq); assumption.
  - apply (In_alookup bytes_eqb bytes_eqb_eq); assumption.
Qed.

Lemma get_sessions st k s : get_session st k = Some s -> In (k, s) (sessions st).
Proof.
  destruct k as [c|i]; cbn [get_session]; intros H; apply in_sessions.
  - left; exists c; split; [reflexivity|apply (alookup_In N.eqb N.eqb_eq); exact H].
  - right; exists i; split; [reflexivity|apply (alookup_In bytes_eqb bytes_eqb_eq); exact H].
Qed.

Lemma existsb_map {A B} (f : B -> bool) (g : A -> B) l : existsb f (map g l) = existsb (fun x => f (g x)) l.
Proof. induction l as [|x l IH]; cbn [map existsb]; [reflexivity|rewrite IH; reflexivity]. Qed.

Lemma existsb_ext' {A} (f g : A -> bool) l : (forall x, In x l -> f x = g x) -> existsb f l = existsb g l.
Proof.
  induction l as [|x l IH]; cbn [existsb]; intros H; [reflexivity|].
  rewrite (H x (or_introl eq_refl)), IH; [reflexivity|intros y Hy; apply H; right; exact Hy].
Qed.

Lemma existsb_sessions st (p : session -> bool) :
  existsb p (map snd (st_temps st)) || existsb p (map snd (st_stored st)) =
  existsb (fun e => p (snd e)) (sessions st).
Proof.
  unfold sessions. rewrite existsb_app, !existsb_map. cbn [snd]. reflexivity.
Qed.

(* ------------------------------------------------------------------ one session under Publish *)
Lemma enqueue_gained m s : gained m s (enqueue m s) = true.
Proof.
  unfold gained, enqueue, queue_of, live_copy. destruct (use_temp m) eqn:E; cbn [s_tq s_sq]; rewrite ?E; apply msgs_eqb_refl.
Qed.

Lemma enqueue_frame m s :
  s_subs (enqueue m s) = s_subs s /\ other_queue m (enqueue m s) = other_queue m s /\ s_act (enqueue m s) = s_act s.
Proof. unfold enqueue, other_queue. destruct (use_temp m); cbn; auto. Qed.

Lemma kept_refl m s : kept m s s = true.
Proof. apply msgs_eqb_refl. Qed.

Lemma classify_cases st c m s :
  name_ok (m_topic m) = true ->
  let full := is_full (st_cap st) (queue_of m s) in
  classify st c m s =
    if has_match (s_subs s) (m_topic m) then
      match s_act s with
      | None => if full then ADrop else AEnq
      | Some c' => if c' =? c then (if full then (if mem_n c (st_dying st) then ASkip else AErr) else AEnq)
                   else if full then (if mem_n c' (st_dying st) then ASkip else ABlock)
                   else AEnq
      end
    else ANone.
Proof.
  intros Hn. cbv zeta. unfold classify. rewrite <- (pick_sub_has_match _ _ Hn).
  destruct (pick_sub (s_subs s) (m_topic m)); reflexivity.
Qed.

Lemma is_block_classify st c m s :
  name_ok (m_topic m) = true ->
  is_block (classify st c m s) =
  has_match (s_subs s) (m_topic m) &&
  match s_act s with Some c' => negb (c' =? c) && negb (mem_n c' (st_dying st)) | None => false end &&
  is_full (st_cap st) (queue_of m s).
Proof.
  intros Hn. rewrite (classify_cases st c m s Hn).
  destruct (has_match (s_subs s) (m_topic m)); [|reflexivity].
  destruct (s_act s) as [c'|]; cbn [andb].
  - destruct (c' =? c); cbn [negb andb]; [destruct (is_full _ _); [destruct (mem_n c (st_dying st))|]; reflexivity|].
    destruct (is_full _ _); [destruct (mem_n c' (st_dying st))|]; cbn; rewrite ?andb_false_r; reflexivity.
  - destruct (is_full _ _); reflexivity.
Qed.

Definition pub_err (st : state) (c : conn) (m : message) : bool :=
  existsb is_err (map (fun e => classify st c m (snd e)) (st_temps st)) ||
  existsb is_err (map (fun e => classify st c m (snd e)) (st_stored st)).
Definition pub_blk (st : state) (c : conn) (m : message) : bool :=
  existsb is_block (map (fun e => classify st c m (snd e)) (st_temps st)) ||
  existsb is_block (map (fun e => classify st c m (snd e)) (st_stored st)).
(* the call does not go through: refused by the pre-check, or waiting *)
Definition pub_stuck (st : state) (c : conn) (m : message) : bool :=
  own_refused st c m || (negb (pub_err st c m) && pub_blk st c m).

Lemma own_refused_own_full st c m : name_ok (m_topic m) = true -> own_refused st c m = own_full st c m.
Proof.
  intros Hn. unfold own_refused, own_full. f_equal. destruct (session_of st c) as [[k s]|]; [|reflexivity].
  rewrite <- (pick_sub_has_match _ _ Hn). destruct (pick_sub (s_subs s) (m_topic m)); reflexivity.
Qed.

Lemma pub_blk_other_full st c m : name_ok (m_topic m) = true -> pub_blk st c m = other_full st c m.
Proof.
  intros Hn. unfold pub_blk, other_full, sessions. rewrite existsb_app, !existsb_map. cbn [snd].
  f_equal; apply existsb_ext'; intros x _; apply is_block_classify; exact Hn.
Qed.

(* a session names a connection as active only if it is that connection's session (holds in every reachable
   state: BackendOwn.v) *)
Definition OwnOk (st : state) : Prop :=
  forall k s c, get_session st k = Some s -> s_act s = Some c -> session_of st c = Some (k, s).

(* hence, once the pre-check has passed, no own full queue is met during the fan-out *)
Lemma no_midway st c m : wf st -> OwnOk st -> own_refused st c m = false -> pub_err st c m = false.
Proof.
  intros W O R. destruct (pub_err st c m) eqn:E; [|reflexivity]. exfalso.
  assert (X : exists k s, In (k, s) (sessions st) /\ is_err (classify st c m s) = true).
  { unfold pub_err in E. apply orb_true_iff in E as [E|E]; rewrite existsb_map in E; apply existsb_exists in E as [[x s] [Hin He]].
    - exists (KTemp x), s. split; [apply in_sessions; left; exists x; auto|exact He].
    - exists (KStored x), s. split; [apply in_sessions; right; exists x; auto|exact He]. }
  destruct X as (k & s & Hin & He). pose proof (sessions_get st k s W Hin) as G.
  unfold classify in He. destruct (pick_sub (s_subs s) (m_topic m)) as [x|] eqn:P; [|discriminate].
  destruct (s_act s) as [c'|] eqn:A; [|destruct (is_full _ _); discriminate].
  destruct (c' =? c) eqn:Ec.
  - apply N.eqb_eq in Ec; subst c'. destruct (is_full (st_cap st) (queue_of m s)) eqn:F; [|discriminate].
    destruct (mem_n c (st_dying st)) eqn:D; [discriminate|].
    unfold own_refused in R. rewrite D, (O k s c G A), P, F in R. discriminate.
  - destruct (is_full _ _); [destruct (mem_n c' (st_dying st))|]; discriminate.
Qed.

Lemma pub_err_false_session st c m k s :
  pub_err st c m = false -> In (k, s) (sessions st) -> is_err (classify st c m s) = false.
Proof.
  unfold pub_err. intros H Hin. apply orb_false_iff in H as [H1 H2].
  rewrite existsb_map in H1. rewrite existsb_map in H2.
  apply in_sessions in Hin as [[x [-> Hin]]|[x [-> Hin]]].
  - destruct (is_err (classify st c m s)) eqn:E; [|reflexivity].
    assert (X : existsb (fun e => is_err (classify st c m (snd e))) (st_temps st) = true)
      by (apply existsb_exists; exists (x, s); auto). congruence.
  - destruct (is_err (classify st c m s)) eqn:E; [|reflexivity].
    assert (X : existsb (fun e => is_err (classify st c m (snd e))) (st_stored st) = true)
      by (apply existsb_exists; exists (x, s); auto). congruence.
Qed.

Lemma pub_blk_false_session st c m k s :
  pub_blk st c m = false -> In (k, s) (sessions st) -> is_block (classify st c m s) = false.
Proof.
  unfold pub_blk. intros H Hin. apply orb_false_iff in H as [H1 H2].
  rewrite existsb_map in H1. rewrite existsb_map in H2.
  apply in_sessions in Hin as [[x [-> Hin]]|[x [-> Hin]]].
  - destruct (is_block (classify st c m s)) eqn:E; [|reflexivity].
    assert (X : existsb (fun e => is_block (classify st c m (snd e))) (st_temps st) = true)
      by (apply existsb_exists; exists (x, s); auto). congruence.
  - destruct (is_block (classify st c m s)) eqn:E; [|reflexivity].
    assert (X : existsb (fun e => is_block (classify st c m (snd e))) (st_stored st) = true)
      by (apply existsb_exists; exists (x, s); auto). congruence.
Qed.

Lemma target_same st c m r s :
  (match r with ROk => has_match (s_subs s) (m_topic m) = false | _ => True end) ->
  target_ok st c m r s s = true.
Proof.
  intros H. unfold target_ok. rewrite subs_eqb_refl, msgs_eqb_refl, act_eqb_refl, kept_refl. cbn [andb orb].
  destruct (has_match (s_subs s) (m_topic m)); [|reflexivity].
  destruct r; try reflexivity. discriminate H.
Qed.

(* the session after a Publish that returned nil *)
Lemma target_deliver st c m got k s :
  name_ok (m_topic m) = true ->
  is_err (classify st c m s) = false -> is_block (classify st c m s) = false ->
  target_ok st c m ROk s (deliver false got k (classify st c m s) m s) = true.
Proof.
  intros Hn He Hb. unfold target_ok.
  assert (Hframe : forall s', (s' = s \/ s' = enqueue m s) ->
     subs_eqb (s_subs s) (s_subs s') && msgs_eqb (other_queue m s) (other_queue m s') &&
     option_eqb N.eqb (s_act s) (s_act s') = true).
  { intros s' [->| ->].
    - rewrite subs_eqb_refl, msgs_eqb_refl, act_eqb_refl; reflexivity.
    - destruct (enqueue_frame m s) as (E1 & E2 & E3). rewrite E1, E2, E3.
      rewrite subs_eqb_refl, msgs_eqb_refl, act_eqb_refl; reflexivity. }
  assert (Hd : deliver false got k (classify st c m s) m s = s \/
               deliver false got k (classify st c m s) m s = enqueue m s).
  { unfold deliver. destruct (classify st c m s); auto. }
  rewrite (Hframe _ Hd). cbn [andb].
  rewrite (classify_cases st c m s Hn) in *.
  destruct (has_match (s_subs s) (m_topic m)); [|cbn [deliver]; apply kept_refl].
  set (full := is_full (st_cap st) (queue_of m s)) in *.
  destruct (s_act s) as [c'|].
  - destruct (c' =? c) eqn:Ec.
    + apply N.eqb_eq in Ec; subst c'. destruct full.
      * destruct (mem_n c (st_dying st)); cbn [is_err deliver andb] in *; [apply kept_refl|discriminate].
      * rewrite andb_false_r. cbn [deliver]. apply enqueue_gained.
    + destruct full.
      * destruct (mem_n c' (st_dying st)); cbn [is_block deliver andb] in *; [apply kept_refl|discriminate].
      * rewrite andb_false_r. cbn [deliver]. apply enqueue_gained.
  - destruct full; cbn [deliver]; [apply kept_refl|apply enqueue_gained].
Qed.

(* ------------------------------------------------------------------ the Publish step *)
Lemma publish_unfold st c m got :
  publish st c m got =
  if pub_stuck st c m then ((if own_refused st c m then RQueueFull else RBlocked), st)
  else ((if pub_err st c m then RQueueFull else ROk),
        St (st_cap st)
           (map (fun e => (fst e, deliver (pub_err st c m) got (KStored (fst e)) (classify st c m (snd e)) m (snd e))) (st_stored st))
           (map (fun e => (fst e, deliver (pub_err st c m) got (KTemp (fst e)) (classify st c m (snd e)) m (snd e))) (st_temps st))
           (st_active st) (retain_update m (st_retained st)) (st_closing st) (st_sess st) (st_cid st)
           (st_dying st) (st_closed st) (st_term st) (st_pending st)).
Proof.
  unfold publish, pub_stuck. destruct (own_refused st c m); [reflexivity|]. cbn [orb]. reflexivity.
Qed.

Lemma get_session_published st c m got k :
  let st' := snd (publish st c m got) in
  pub_stuck st c m = false ->
  get_session st' k =
  option_map (fun s => deliver (pub_err st c m) got k (classify st c m s) m s) (get_session st k).
Proof.
  intros st' Hnb. unfold st'. rewrite publish_unfold, Hnb. cbn [snd].
  destruct k as [x|x]; cbn [get_session st_temps st_stored].
  - exact (alookup_map N.eqb N.eqb_eq
            (fun key s => deliver (pub_err st c m) got (KTemp key) (classify st c m s) m s) x (st_temps st)).
  - exact (alookup_map bytes_eqb bytes_eqb_eq
            (fun key s => deliver (pub_err st c m) got (KStored key) (classify st c m s) m s) x (st_stored st)).
Qed.

Lemma get_session_published_some st c m got k s' :
  get_session (snd (publish st c m got)) k = Some s' -> is_some (get_session st k) = true.
Proof.
  rewrite publish_unfold. destruct (pub_stuck st c m) eqn:Hnb; cbn [snd].
  - intros ->; reflexivity.
  - pose proof (get_session_published st c m got k Hnb) as X. cbv zeta in X.
    rewrite publish_unfold, Hnb in X; cbn [snd] in X. rewrite X.
    destruct (get_session st k); [reflexivity|discriminate].
Qed.

(* a Publish that returns ErrQueueFull was refused by the pre-check and has changed nothing *)
Lemma publish_refused st c m got :
  wf st -> OwnOk st -> fst (publish st c m got) = RQueueFull ->
  own_refused st c m = true /\ snd (publish st c m got) = st.
Proof.
  intros W O H. rewrite publish_unfold in *. unfold pub_stuck in *. destruct (own_refused st c m) eqn:R.
  - cbn [orb snd]. split; reflexivity.
  - rewrite (no_midway st c m W O R) in *. cbn [orb negb andb] in H. destruct (pub_blk st c m); discriminate.
Qed.

Theorem publish_targets_ok st c m got :
  wf st -> OwnOk st ->
  let (r, st') := publish st c m got in
  targets_ok st (OPublish c m got) r st' = true.
Proof.
  intros W O. destruct (publish st c m got) as [r st'] eqn:E. cbn [targets_ok].
  destruct (name_ok (m_topic m)) eqn:Hn; [|reflexivity].
  assert (Est : st' = snd (publish st c m got)) by (rewrite E; reflexivity).
  rewrite publish_unfold in E.
  destruct (pub_stuck st c m) eqn:Hnb.
  - (* refused or waiting: nothing has changed *)
    injection E as <- <-. rewrite !andb_true_iff. split; [split|].
    + apply forallb_forall. intros [k s] Hin. cbn [fst snd]. rewrite (sessions_get st k s W Hin).
      apply target_same. destruct (own_refused st c m); exact I.
    + apply forallb_forall. intros [k s] Hin. cbn [fst]. rewrite (sessions_get st k s W Hin). reflexivity.
    + destruct (own_refused st c m) eqn:R.
      * rewrite <- (own_refused_own_full st c m Hn). exact R.
      * rewrite <- (pub_blk_other_full st c m Hn). unfold pub_stuck in Hnb. rewrite R, (no_midway st c m W O R) in Hnb. exact Hnb.
  - unfold pub_stuck in Hnb. apply orb_false_iff in Hnb as [R Hb].
    pose proof (no_midway st c m W O R) as Herr. rewrite Herr in *. cbn [negb andb] in Hb.
    assert (Hnb : pub_stuck st c m = false) by (unfold pub_stuck; rewrite R, Herr, Hb; reflexivity).
    injection E as <- _. rewrite !andb_true_iff. split; [split|].
    + apply forallb_forall. intros [k s] Hin. cbn [fst snd].
      rewrite Est, (get_session_published st c m got k Hnb), (sessions_get st k s W Hin), Herr. cbn [option_map].
      apply (target_deliver st c m got k s Hn);
        [exact (pub_err_false_session st c m k s Herr Hin)|exact (pub_blk_false_session st c m k s Hb Hin)].
    + apply forallb_forall. intros [k s'] Hin. cbn [fst]. rewrite Est, publish_unfold, Hnb in Hin. cbn [snd] in Hin.
      apply in_sessions in Hin as [[x [-> Hin]]|[x [-> Hin]]]; cbn [st_temps st_stored get_session] in *.
      * apply in_map_iff in Hin as [[x0 s0] [Ex Hin]]. cbn [fst snd] in Ex. injection Ex as -> _.
        destruct W as (Wt & _). rewrite (In_alookup N.eqb N.eqb_eq x s0 _ Wt Hin); reflexivity.
      * apply in_map_iff in Hin as [[x0 s0] [Ex Hin]]. cbn [fst snd] in Ex. injection Ex as -> _.
        destruct W as (_ & Ws & _). rewrite (In_alookup bytes_eqb bytes_eqb_eq x s0 _ Ws Hin); reflexivity.
    + rewrite <- (own_refused_own_full st c m Hn), <- (pub_blk_other_full st c m Hn), R, Hb. split; reflexivity.
Qed.
