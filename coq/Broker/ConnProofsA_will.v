(* ConnProofsA_will.v — C12_will: on every trace the model accepts, the will is
   published by the cleanup exactly once iff the client was accepted (Setup
   succeeded), supplied a will and sent no DISCONNECT; Terminate is called iff
   the client passed authentication; both at most once, before Closed. *)
From Coq Require Import List NArith Bool Lia.
From GM Require Import Base.Lts Codec.Packet Session.Ids Session.Store
  Broker.Conn Broker.ConnSpec Broker.ConnBase Broker.ConnProofsA_lib Broker.ConnProofsA_inv.
Import ListNotations.
Open Scope N_scope.

Definition wl_due (t : wl_st) : bool :=
  wl_setup t && negb (wl_disc t) && match wl_will t with Some _ => true | None => false end.

Definition procs_of (gp : option N) : list N := match gp with Some g => [g] | None => [] end.
Definition connecting (p : phase) : bool := match p with Connecting => true | _ => false end.

(* the relation between the model state (through gproc, ph, will, pp, lp) and the
   scanner's bookkeeping *)
Definition will_R' (gp : option N) (ph : phase) (w : option message) (pp : ppc) (lp : lpc) (t : wl_st) : Prop :=
  wl_procs t = procs_of gp /\
  wl_auth t = negb (connecting ph) /\
  (wl_setup t = false -> w = None) /\
  (wl_setup t = true -> gp <> None /\ ph <> Connecting) /\
  (wl_setup t = true -> ph = Connected -> w = wl_will t) /\
  (wl_disc t = true -> ph = Disconnected) /\
  (ph = Disconnected -> wl_setup t = true -> wl_disc t = true) /\
  (pp = PFirst -> gp = None) /\
  (forall c, pp = PAuth c \/ pp = PSetup c -> gp <> None /\ wl_will t = c_will c) /\
  match lp with
  | LNone => wl_pubs t = 0 /\ wl_terms t = 0
  | LWillR | LWillDie | LTerm => wl_pubs t = 1 /\ wl_terms t = 0 /\ wl_due t = true /\ wl_auth t = true
  | LTermDie | LClosed => wl_terms t = 1 /\ wl_auth t = true /\ Bool.eqb (wl_due t) (wl_pubs t =? 1) = true
  | LEnd => True
  end.

Definition will_R (s : bc) (t : wl_st) : Prop := will_R' (gproc s) (ph s) (will s) (pp s) (lp s) t.

Definition will_I (s : bc) : Prop := inv_phase s /\ inv_frozen s.

Lemma will_I_init : will_I bc_init.
Proof. split; [exact inv_phase_init|exact inv_frozen_init]. Qed.
Lemma will_I_step s e s' : will_I s -> step s e = Some s' -> will_I s'.
Proof. intros [H1 H2] H. split; [eapply inv_phase_step; eassumption|eapply inv_frozen_step; eassumption]. Qed.

(* events the scanner ignores *)
Definition wl_neutral (e : event) : bool :=
  match e with
  | ENewConn | ERx _ _ | ERxErr _ | EAuth _ AOk | ESetup _ (SOk _ _ _ _ _) | EPub _ _ None | ETerm _ _ | EClosed => false
  | _ => true
  end.

Lemma wl_neutral_step t e : wl_neutral e = true -> wl_step t e = Some t.
Proof.
  destruct e; cbn; intros H; try discriminate H; try reflexivity.
  - destruct r; try discriminate H; reflexivity.
  - destruct r; try discriminate H; reflexivity.
  - destruct k; try discriminate H; reflexivity.
Qed.

Lemma clo_event_wl_neutral e : clo_event e = true -> wl_neutral e = true.
Proof. destruct e; cbn; intros H; try discriminate H; reflexivity. Qed.

Lemma nmem_procs_false gp g : is_role gp g = false -> nmem g (procs_of gp) = false.
Proof. destruct gp as [g'|]; cbn; intros H; [rewrite H; reflexivity|reflexivity]. Qed.

Lemma nmem_self g : nmem g [g] = true.
Proof. cbn. rewrite N.eqb_refl. reflexivity. Qed.

(* a processor step on an event the scanner ignores leaves ph and will alone and
   does not lead to the control points before Setup *)
Lemma step_proc_neutral s e s' : wl_neutral e = true -> step_proc s e = Some s' ->
  ph s' = ph s /\ will s' = will s /\ pp s' <> PFirst /\ (forall c, pp s' <> PAuth c /\ pp s' <> PSetup c).
Proof.
  intros Hn Hp. unfold_proc Hp.
  destruct (pp s) eqn:Epp; destruct e; try discriminate Hn; try discriminate Hp; bm Hp; inv_some Hp; subst;
    try discriminate Hn; sf; repeat split; try reflexivity; try discriminate.
Qed.

Ltac wl_proj := cbn [wl_procs wl_will wl_auth wl_setup wl_disc wl_pubs wl_terms] in *.

Ltac fwd :=
  repeat match goal with
  | Hx : ?a = ?a -> _ |- _ => specialize (Hx eq_refl)
  | Hx : ?P -> _, Hy : ?P |- _ => specialize (Hx Hy)
  end.

Ltac wfin :=
  unfold will_R'; sf; wl_proj; cbn [connecting negb procs_of andb orb];
  repeat split; intros;
  repeat match goal with Hx : _ \/ _ |- _ => destruct Hx | Hx : _ /\ _ |- _ => destruct Hx end;
  fwd; subst; try discriminate; try congruence; auto.

(* ----------------------------------------------------------- the processor *)

Lemma will_proc s t e s' g gp0 :
  inv_phase s -> lp s = LNone ->
  will_R' gp0 (ph s) (will s) (pp s) (lp s) t ->
  gproc s = Some g -> ev_g e = Some g ->
  (gp0 = Some g \/ (gp0 = None /\ is_rx e = true)) ->
  step_proc s e = Some s' ->
  exists t', wl_step t e = Some t' /\ will_R s' t'.
Proof.
  intros (Hi1 & Hi2 & Hi3) Hlp HR Hgp Hg Hgp0 Hp.
  destruct (step_proc_frame _ _ _ Hp) as (_ & Fg & _ & _ & _ & Fl).
  destruct (wl_neutral e) eqn:Hn.
  { (* ignored events *)
    exists t. split; [apply wl_neutral_step, Hn|].
    destruct (step_proc_neutral _ _ _ Hn Hp) as (F1 & F2 & F3 & F4).
    assert (Hgp0' : gp0 = Some g).
    { destruct Hgp0 as [?|[_ Hrx]]; [assumption|]. destruct e; discriminate. }
    unfold will_R. rewrite F1, F2, Fg, Fl, Hgp. rewrite Hgp0' in HR.
    destruct HR as (W1 & W2 & W3 & W4 & W5 & W6 & W8 & W9 & W10 & W11).
    repeat split; try assumption; try (apply W4; assumption).
    - intros Hx; contradiction.
    - destruct H as [H|H]; destruct (F4 c); contradiction.
    - destruct H as [H|H]; destruct (F4 c); contradiction. }
  unfold will_R. rewrite Fg, Fl, Hgp, Hlp. rewrite Hlp in HR.
  destruct HR as (W1 & W2 & W3 & W4 & W5 & W6 & W8 & W9 & W10 & W11 & W12).
  destruct t as [procs wwill auth setup disc pubs terms]. wl_proj.
  assert (Hprocs : (if nmem g procs then procs else g :: procs) = [g]).
  { rewrite W1. destruct Hgp0 as [->|[-> _]]; cbn [procs_of]; [rewrite nmem_self|]; reflexivity. }
  unfold_proc Hp.
  destruct e; try discriminate Hn; cbn [ev_g] in Hg; try discriminate Hg; injection Hg as ->.
  - (* ERx *)
    destruct (pp s) eqn:Epp; try discriminate Hp.
    + (* first packet *)
      specialize (Hi2 eq_refl). specialize (W9 eq_refl). subst gp0. cbn [procs_of] in W1. subst procs.
      rewrite Hi2 in *. cbn [connecting negb] in W2. subst auth.
      assert (Hs : setup = false).
      { destruct setup; [|reflexivity]. destruct (W4 eq_refl) as [_ Hx]. contradiction. }
      subst setup.
      destruct p; inv_some Hp; (eexists; split; [reflexivity|]); rewrite ?Hi2; wfin.
    + (* main loop *)
      assert (Hph : ph s <> Connecting).
      { intros Hx. destruct (Hi1 Hx) as (Hy & _). rewrite Epp in Hy. discriminate Hy. }
      assert (Ha : auth = true) by (rewrite W2; destruct (ph s); [contradiction|reflexivity|reflexivity]).
      subst auth.
      assert (Hw : match procs with [] => setup = false | _ => True end).
      { destruct procs; [|exact I]. destruct setup; [|reflexivity]. destruct (W4 eq_refl) as [Hx _].
        destruct gp0; [discriminate W1|contradiction]. }
      destruct p; bm Hp; inv_some Hp; cbn [wl_step]; rewrite Hprocs;
        try (eexists; split; [reflexivity|]); try solve [wfin].
      * (* a second CONNECT *)
        destruct procs; (eexists; split; [reflexivity|]); wfin.
      * (* DISCONNECT *)
        wfin. destruct setup; [discriminate|reflexivity].
  - (* ERxErr *)
    destruct (pp s) eqn:Epp; try discriminate Hp; inv_some Hp; cbn [wl_step]; rewrite Hprocs;
      (eexists; split; [reflexivity|]); wfin.
  - (* EAuth AOk *)
    destruct Hgp0 as [->|[_ Hx]]; [|discriminate Hx].
    destruct (pp s) eqn:Epp; try discriminate Hp. destruct r; try discriminate Hn. inv_some Hp.
    specialize (Hi2 eq_refl). rewrite Hi2 in *. cbn [connecting negb] in W2. subst auth.
    assert (Hs : setup = false).
    { destruct setup; [|reflexivity]. destruct (W4 eq_refl) as [_ Hx]. contradiction. }
    subst setup. destruct (W10 c (or_introl eq_refl)) as [Hx1 Hx2].
    (eexists; split; [reflexivity|]); wfin.
  - (* ESetup SOk *)
    destruct Hgp0 as [->|[_ Hx]]; [|discriminate Hx].
    destruct (pp s) eqn:Epp; try discriminate Hp. destruct r; try discriminate Hn. bm Hp; inv_some Hp.
    pose proof (Hi3 _ eq_refl) as Hph. rewrite Hph in *.
    destruct (W10 c (or_intror eq_refl)) as [Hx1 Hx2].
    (eexists; split; [reflexivity|]); wfin.
  - (* EPub None by the processor: a QoS 0 publish *)
    destruct Hgp0 as [->|[_ Hx]]; [|discriminate Hx].
    destruct k; [discriminate Hn|]. cbn [wl_step]. wl_proj. rewrite W1. cbn [procs_of]. rewrite nmem_self.
    destruct (pp s) eqn:Epp; try discriminate Hp; bm Hp; inv_some Hp.
    (eexists; split; [reflexivity|]); wfin.
  - (* ETerm: never by the processor *)
    destruct (pp s); discriminate Hp.
Qed.
