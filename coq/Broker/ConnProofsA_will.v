(* ConnProofsA_will.v — C12_will: on every trace the model accepts, the will is
   published by the cleanup exactly once iff the client was accepted (Setup
   succeeded), supplied a will and sent no DISCONNECT; Terminate is called iff
   the client passed authentication; both at most once, before Closed. *)
From Coq Require Import List NArith Bool Lia.
From GM Require Import Base.Lts Codec.Packet Session.Ids Session.Store
  Broker.Conn Broker.ConnSpec Broker.ConnBase Broker.ConnProofsA_lib Broker.ConnProofsA_inv.
Import ListNotations.
Open Scope N_scope.

Definition wl_due (t : wl_st) : bool :=
  wl_setup t && negb (wl_disc t) && match wl_will t with Some _ => true | None => false end.

Definition procs_of (gp : option N) : list N := match gp with Some g => [g] | None => [] end.
Definition connecting (p : phase) : bool := match p with Connecting => true | _ => false end.

(* the relation between the model state (through gproc, ph, will, pp, lp) and the
   scanner's bookkeeping *)
Definition will_R' (gp : option N) (ph : phase) (w : option message) (pp : ppc) (lp : lpc) (t : wl_st) : Prop :=
  wl_procs t = procs_of gp /\
  wl_auth t = negb (connecting ph) /\
  (wl_setup t = false -> w = None) /\
  (wl_setup t = true -> gp <> None /\ ph <> Connecting) /\
  (wl_setup t = true -> ph = Connected -> w = wl_will t) /\
  (wl_disc t = true -> ph = Disconnected) /\
  (ph = Disconnected -> wl_setup t = true -> wl_disc t = true) /\
  (pp = PFirst -> gp = None) /\
  (forall c, pp = PAuth c \/ pp = PSetup c -> gp <> None /\ wl_will t = c_will c) /\
  match lp with
  | LNone => wl_pubs t = 0 /\ wl_terms t = 0
  | LWillR | LWillDie | LTerm => wl_pubs t = 1 /\ wl_terms t = 0 /\ wl_due t = true /\ wl_auth t = true
  | LTermDie | LClosed => wl_terms t = 1 /\ wl_auth t = true /\ Bool.eqb (wl_due t) (wl_pubs t =? 1) = true
  | LEnd => True
  end.

Definition will_R (s : bc) (t : wl_st) : Prop := will_R' (gproc s) (ph s) (will s) (pp s) (lp s) t.

Definition will_I (s : bc) : Prop := inv_phase s /\ inv_frozen s.

Lemma will_I_init : will_I bc_init.
Proof. split; [exact inv_phase_init|exact inv_frozen_init]. Qed.
Lemma will_I_step s e s' : will_I s -> step s e = Some s' -> will_I s'.
Proof. intros [H1 H2] H. split; [eapply inv_phase_step; eassumption|eapply inv_frozen_step; eassumption]. Qed.

(* events the scanner ignores *)
Definition wl_neutral (e : event) : bool :=
  match e with
  | ENewConn | ERx _ _ | ERxErr _ | EAuth _ AOk | ESetup _ (SOk _ _ _ _ _) | EPub _ _ None | ETerm _ _ | EClosed => false
  | _ => true
  end.

Lemma wl_neutral_step t e : wl_neutral e = true -> wl_step t e = Some t.
Proof.
  destruct e; cbn; intros H; try discriminate H; try reflexivity.
  - destruct r; try discriminate H; reflexivity.
  - destruct r; try discriminate H; reflexivity.
  - destruct k; try discriminate H; reflexivity.
Qed.

Lemma clo_event_wl_neutral e : clo_event e = true -> wl_neutral e = true.
Proof. destruct e; cbn; intros H; try discriminate H; reflexivity. Qed.

Lemma nmem_procs_false gp g : is_role gp g = false -> nmem g (procs_of gp) = false.
Proof. destruct gp as [g'|]; cbn; intros H; [rewrite H; reflexivity|reflexivity]. Qed.

Lemma nmem_self g : nmem g [g] = true.
Proof. cbn. rewrite N.eqb_refl. reflexivity. Qed.

(* a processor step on an event the scanner ignores leaves ph and will alone and
   does not lead to the control points before Setup *)
Lemma step_proc_neutral s e s' : wl_neutral e = true -> step_proc s e = Some s' ->
  ph s' = ph s /\ will s' = will s /\ pp s' <> PFirst /\ (forall c, pp s' <> PAuth c /\ pp s' <> PSetup c).
Proof.
  intros Hn Hp. unfold_proc Hp.
  destruct (pp s) eqn:Epp; destruct e; try discriminate Hn; try discriminate Hp; bm Hp; inv_some Hp; subst;
    try discriminate Hn; sf; repeat split; try reflexivity; try discriminate.
Qed.

Ltac wl_proj := cbn [wl_procs wl_will wl_auth wl_setup wl_disc wl_pubs wl_terms] in *.

Ltac fwd :=
  repeat match goal with
  | Hx : ?a = ?a -> _ |- _ => specialize (Hx eq_refl)
  | Hx : ?P -> _, Hy : ?P |- _ => specialize (Hx Hy)
  end.

Ltac wfin :=
  unfold will_R'; sf; wl_proj;
  repeat match goal with Hx : ph ?s = _ |- context [ph ?s] => rewrite Hx end;
  cbn [connecting negb procs_of andb orb];
  repeat split; intros;
  repeat match goal with Hx : _ \/ _ |- _ => destruct Hx | Hx : _ /\ _ |- _ => destruct Hx end;
  fwd;
  repeat match goal with Hx : _ \/ _ |- _ => destruct Hx | Hx : _ /\ _ |- _ => destruct Hx end;
  subst; try discriminate; try congruence; auto;
  try match goal with Hx : _ \/ _ -> _ /\ _ |- _ => solve [destruct Hx as [? ?]; auto] end.

(* ----------------------------------------------------------- the processor *)

Lemma will_proc s t e s' g gp0 :
  inv_phase s -> lp s = LNone ->
  will_R' gp0 (ph s) (will s) (pp s) (lp s) t ->
  gproc s = Some g -> ev_g e = Some g ->
  (gp0 = Some g \/ (gp0 = None /\ is_rx e = true)) ->
  step_proc s e = Some s' ->
  exists t', wl_step t e = Some t' /\ will_R s' t'.
Proof.
  intros (Hi1 & Hi2 & Hi3) Hlp HR Hgp Hg Hgp0 Hp.
  destruct (step_proc_frame _ _ _ Hp) as (_ & Fg & _ & _ & _ & Fl).
  destruct (wl_neutral e) eqn:Hn.
  { (* ignored events *)
    exists t. split; [apply wl_neutral_step, Hn|].
    destruct (step_proc_neutral _ _ _ Hn Hp) as (F1 & F2 & F3 & F4).
    assert (Hgp0' : gp0 = Some g).
    { destruct Hgp0 as [?|[_ Hrx]]; [assumption|]. destruct e; discriminate. }
    unfold will_R. rewrite F1, F2, Fg, Fl, Hgp. rewrite Hgp0' in HR.
    destruct HR as (W1 & W2 & W3 & W4 & W5 & W6 & W8 & W9 & W10 & W11).
    repeat split; try assumption; try (apply W4; assumption).
    - intros Hx; contradiction.
    - destruct H as [H|H]; destruct (F4 c); contradiction.
    - destruct H as [H|H]; destruct (F4 c); contradiction. }
  unfold will_R. rewrite Fg, Fl, Hgp, Hlp. rewrite Hlp in HR.
  destruct HR as (W1 & W2 & W3 & W4 & W5 & W6 & W8 & W9 & W10 & W11 & W12).
  destruct t as [procs wwill auth setup disc pubs terms]. wl_proj.
  assert (Hprocs : (if nmem g procs then procs else g :: procs) = [g]).
  { rewrite W1. destruct Hgp0 as [->|[-> _]]; cbn [procs_of]; [rewrite nmem_self|]; reflexivity. }
  unfold_proc Hp.
  destruct e; try discriminate Hn; cbn [ev_g] in Hg; try discriminate Hg; injection Hg as ->.
  - (* ERx *)
    destruct (pp s) eqn:Epp; try discriminate Hp; try (bm Hp; fail).
    + (* first packet *)
      specialize (Hi2 eq_refl). specialize (W9 eq_refl). subst gp0. cbn [procs_of] in W1. subst procs.
      rewrite Hi2 in *. cbn [connecting negb] in W2. subst auth.
      assert (Hs : setup = false).
      { destruct setup; [|reflexivity]. destruct (W4 eq_refl) as [_ Hx]. contradiction. }
      subst setup.
      destruct p; inv_some Hp; (eexists; split; [reflexivity|]); rewrite ?Hi2; wfin.
    + (* main loop *)
      assert (Hph : ph s <> Connecting).
      { intros Hx. destruct (Hi1 Hx) as (Hy & _). discriminate Hy. }
      assert (Ha : auth = true) by (rewrite W2; destruct (ph s); [contradiction|reflexivity|reflexivity]).
      subst auth.
      assert (Hw : match procs with [] => setup = false | _ => True end).
      { destruct procs; [|exact I]. destruct setup; [|reflexivity]. destruct (W4 eq_refl) as [Hx _].
        destruct gp0; [discriminate W1|contradiction]. }
      destruct p; bm Hp; inv_some Hp; cbn [wl_step]; wl_proj; rewrite Hprocs;
        try (eexists; split; [reflexivity|]); try solve [wfin].
      * (* a second CONNECT *)
        destruct procs; (eexists; split; [reflexivity|]); wfin.
      * (* DISCONNECT *)
        wfin. rewrite Ha. reflexivity.
  - (* ERxErr *)
    destruct (pp s) eqn:Epp; try discriminate Hp; try (bm Hp; fail); inv_some Hp; cbn [wl_step]; wl_proj; rewrite Hprocs;
      (eexists; split; [reflexivity|]); wfin.
  - (* EAuth AOk *)
    destruct Hgp0 as [->|[_ Hx]]; [|discriminate Hx].
    destruct (pp s) eqn:Epp; try discriminate Hp; try (bm Hp; fail). destruct r; try discriminate Hn. inv_some Hp.
    specialize (Hi2 eq_refl). rewrite Hi2 in *. cbn [connecting negb] in W2. subst auth.
    assert (Hs : setup = false).
    { destruct setup; [|reflexivity]. destruct (W4 eq_refl) as [_ Hx]. contradiction. }
    subst setup. destruct (W10 c (or_introl eq_refl)) as [Hx1 Hx2].
    (eexists; split; [reflexivity|]); wfin.
  - (* ESetup SOk *)
    destruct Hgp0 as [->|[_ Hx]]; [|discriminate Hx].
    destruct (pp s) eqn:Epp; try discriminate Hp; try (bm Hp; fail).
    destruct r as [|resumed fresh w0 p0 b0]; try discriminate Hn.
    pose proof (Hi3 _ eq_refl) as Hph. destruct (W10 c (or_intror eq_refl)) as [Hx1 Hx2].
    bm Hp; inv_some Hp; rewrite Hph in *; (eexists; split; [reflexivity|]); wfin.
  - (* EPub None by the processor: a QoS 0 publish *)
    destruct Hgp0 as [->|[_ Hx]]; [|discriminate Hx].
    destruct k; [discriminate Hn|]. cbn [wl_step]. wl_proj. rewrite W1. cbn [procs_of]. rewrite nmem_self.
    destruct (pp s) eqn:Epp; try discriminate Hp; bm Hp; inv_some Hp.
    (eexists; split; [reflexivity|]); wfin.
  - (* ETerm: never by the processor *)
    destruct (pp s); try discriminate Hp; bm Hp.
Qed.

(* ------------------------------------------------------------- the cleanup *)

Lemma will_cleanup s t e s' :
  will_R s t ->
  (e = EClosed \/ exists g, ev_g e = Some g /\ is_role (gproc s) g = false) ->
  step_cleanup s e = Some s' ->
  exists t', wl_step t e = Some t' /\ will_R s' t'.
Proof.
  intros HR He Hl. unfold will_R in *.
  destruct HR as (W1 & W2 & W3 & W4 & W5 & W6 & W8 & W9 & W10 & W11).
  destruct t as [procs wwill auth setup disc pubs terms]. unfold wl_due in *. wl_proj.
  unfold step_cleanup, guard in Hl.
  destruct (lp s) eqn:Elp; destruct e; try discriminate Hl.
  - (* LNone, EPub None: the will *)
    destruct He as [He|(g0 & Hg & Hr)]; [discriminate He|]. cbn [ev_g] in Hg. injection Hg as ->.
    destruct k; [discriminate Hl|].
    destruct (all_stopped s && phase_connected (ph s)) eqn:Eg; [|discriminate Hl].
    apply andb_true_iff in Eg as [Eg1 Eg2].
    destruct (will s) as [w|] eqn:Ew; [|discriminate Hl].
    destruct (message_eqb w m) eqn:Em; [|discriminate Hl]. inv_some Hl.
    cbn [wl_step]; wl_proj. rewrite W1, (nmem_procs_false _ _ Hr).
    destruct (ph s) eqn:Eph; try discriminate Eg2.
    assert (Hs : setup = true).
    { destruct setup; [reflexivity|]. discriminate (W3 eq_refl). }
    subst setup. rewrite <- (W5 eq_refl eq_refl).
    assert (Hd : disc = false).
    { destruct disc; [|reflexivity]. discriminate (W6 eq_refl). }
    subst disc. destruct W11 as [-> ->]. rewrite Em.
    cbn [andb negb N.eqb]. eexists; split; [reflexivity|].
    unfold will_R', wl_due; sf; wl_proj. rewrite Eph. cbn [connecting negb andb].
    wfin.
  - (* LNone, ETerm *)
    destruct (all_stopped s && phase_geq_connected (ph s)
              && negb (phase_connected (ph s) && match will s with Some _ => true | None => false end)) eqn:Eg;
      [|discriminate Hl].
    apply andb_true_iff in Eg as [Eg Eg3]. apply andb_true_iff in Eg as [Eg1 Eg2].
    apply negb_true_iff in Eg3. inv_some Hl.
    cbn [wl_step]; wl_proj. destruct W11 as [-> ->].
    assert (Ha : auth = true) by (rewrite W2; destruct (ph s); [discriminate|reflexivity|reflexivity]).
    rewrite Ha. cbn [andb N.eqb]. eexists; split; [reflexivity|].
    assert (Hdue : setup && negb disc && match wwill with Some _ => true | None => false end = false).
    { destruct setup; [|reflexivity]. destruct disc; [reflexivity|]. destruct wwill as [w|]; [|reflexivity].
      exfalso. destruct (W4 eq_refl) as [_ Hc].
      destruct (ph s) eqn:Eph; [apply Hc; reflexivity| |discriminate (W8 eq_refl eq_refl)].
      rewrite (W5 eq_refl eq_refl) in Eg3. discriminate Eg3. }
    unfold will_R', wl_due; sf; wl_proj. rewrite Hdue.
    destruct ok; wfin.
  - (* LNone, EClosed: the client never passed authentication *)
    destruct (all_stopped s && negb (phase_geq_connected (ph s))) eqn:Eg; [|discriminate Hl].
    apply andb_true_iff in Eg as [Eg1 Eg2]. apply negb_true_iff in Eg2. inv_some Hl.
    cbn [wl_step]; wl_proj. destruct W11 as [-> ->].
    destruct (ph s) eqn:Eph; try discriminate Eg2.
    cbn [connecting negb] in W2. subst auth.
    assert (Hs : setup = false).
    { destruct setup; [|reflexivity]. destruct (W4 eq_refl) as [_ Hc]. exfalso; apply Hc; reflexivity. }
    subst setup. cbn [andb negb N.eqb Bool.eqb]. eexists; split; [reflexivity|].
    unfold will_R', wl_due; sf; wl_proj. rewrite Eph. cbn [connecting negb].
    wfin.
  - (* LWillR, EPubRet *)
    inv_some Hl.
    exists (WlSt procs wwill auth setup disc pubs terms). split; [reflexivity|].
    unfold will_R', wl_due; sf; wl_proj. destruct ok; wfin.
  - (* LWillDie, EDie *)
    destruct k; try discriminate Hl. inv_some Hl.
    exists (WlSt procs wwill auth setup disc pubs terms). split; [reflexivity|].
    unfold will_R', wl_due; sf; wl_proj. wfin.
  - (* LTerm, ETerm *)
    inv_some Hl.
    cbn [wl_step]; wl_proj. destruct W11 as (-> & -> & Hdue & ->).
    cbn [andb N.eqb]. eexists; split; [reflexivity|].
    unfold will_R', wl_due; sf; wl_proj. rewrite Hdue.
    destruct ok; wfin.
  - (* LTermDie, EDie *)
    destruct k; try discriminate Hl. inv_some Hl.
    exists (WlSt procs wwill auth setup disc pubs terms). split; [reflexivity|].
    unfold will_R', wl_due; sf; wl_proj. wfin.
  - (* LClosed, EClosed *)
    inv_some Hl.
    cbn [wl_step]; wl_proj. destruct W11 as (-> & -> & Hdue).
    rewrite Hdue. cbn [andb N.eqb Bool.eqb]. eexists; split; [reflexivity|].
    unfold will_R', wl_due; sf; wl_proj. wfin.
Qed.

(* --------------------------------------------------------------- all steps *)

(* will_R only looks at gproc, ph, will, pp, lp *)
Lemma will_R_ext s s' t :
  gproc s' = gproc s -> ph s' = ph s -> will s' = will s -> pp s' = pp s -> lp s' = lp s ->
  will_R s t -> will_R s' t.
Proof. intros H1 H2 H3 H4 H5. unfold will_R. rewrite H1, H2, H3, H4, H5. auto. Qed.

Lemma will_step_lemma s t e s' :
  will_I s -> will_R s t -> step s e = Some s' -> exists t', wl_step t e = Some t' /\ will_R s' t'.
Proof.
  intros [Hi Hf] HR H.
  destruct (step_cases _ _ _ H) as
      [-> Hl -> | -> Ho -> | -> Hq -> | Hc | -> Hc | g s1 Ho Hg Hc Hin Hv Hp | g s1 Ho Hg Hc Hin R1 Hv Hp
      | g s1 Ho Hg Hc Hin R1 R2 Hv Hp | g s1 Ho Hg Hc Hin R1 R2 R3 Hv Hp | g -> Ho Hc Hin Hfr ->].
  - (* ENewConn *)
    exists wl_new. split; [reflexivity|]. unfold will_R, will_R', wl_new; sf; wl_proj.
    cbn [connecting negb procs_of]. repeat split; intros; try discriminate; auto.
    destruct H0; discriminate. destruct H0; discriminate.
  - exists t. split; [reflexivity|exact HR].
  - exists t. split; [reflexivity|exact HR].
  - (* closure *)
    exists t. split; [apply wl_neutral_step, clo_event_wl_neutral, (step_clo_event _ _ _ Hc)|].
    destruct (step_clo_shape _ _ _ Hc) as (se & cl & dy & q & ->). exact HR.
  - (* EClosed *)
    eapply will_cleanup; [exact HR|left; reflexivity|exact Hc].
  - (* processor *)
    assert (Hl : lp s = LNone).
    { destruct (lp s) eqn:El; try reflexivity;
        (assert (Hn : lp s <> LNone) by (rewrite El; discriminate)); destruct (Hf Hn) as (Hx & _);
        (assert (Hx1 : pp s1 = PDone) by (destruct Hv as [[-> _]|(_ & _ & -> & _)]; exact Hx));
        unfold step_proc in Hp; rewrite Hx1 in Hp; discriminate Hp. }
    eapply (will_proc s1 t e s' g (gproc s)); try eassumption.
    + destruct Hv as [[-> _]|(_ & _ & -> & _)]; exact Hi.
    + destruct Hv as [[-> _]|(_ & _ & -> & _)]; exact Hl.
    + destruct Hv as [[-> _]|(_ & _ & -> & _)]; exact HR.
    + destruct Hv as [[-> Hx]|(_ & _ & -> & _)]; [exact Hx|reflexivity].
    + destruct Hv as [[-> Hx]|(Hx & _ & -> & Hrx)]; [left; exact Hx|right; split; assumption].
  - (* dequeuer *)
    assert (Hn : wl_neutral e = true).
    { unfold step_deq in Hp. destruct (dp s1); destruct e; try discriminate Hp; reflexivity. }
    exists t. split; [apply wl_neutral_step, Hn|].
    destruct (step_deq_shape _ _ _ Hp) as (se & d & dy & t1 & t2 & t3 & ->).
    assert (Hgp : gproc s1 = gproc s) by (destruct Hv as [[-> _]|(_ & _ & ->)]; reflexivity).
    eapply will_R_ext; [| | | | |exact HR]; sf; try exact Hgp;
      destruct Hv as [[-> _]|(_ & _ & ->)]; reflexivity.
  - (* acker *)
    assert (Hn : wl_neutral e = true).
    { unfold step_ack in Hp. destruct (ap s1); destruct e; try discriminate Hp; reflexivity. }
    exists t. split; [apply wl_neutral_step, Hn|].
    destruct (step_ack_shape _ _ _ Hp) as (a & dy & t1 & t2 & t3 & q & ->).
    assert (Hgp : gproc s1 = gproc s) by (destruct Hv as [[-> _]|(_ & _ & ->)]; reflexivity).
    eapply will_R_ext; [| | | | |exact HR]; sf; try exact Hgp;
      destruct Hv as [[-> _]|(_ & _ & ->)]; reflexivity.
  - (* cleanup *)
    eapply will_cleanup; [|right; exists g; split; [exact Hg|]|exact Hp].
    + destruct Hv as [[-> _]|(_ & _ & ->)]; exact HR.
    + destruct Hv as [[-> _]|(_ & _ & ->)]; exact R1.
  - (* Close() from outside *)
    exists t. split; [reflexivity|exact HR].
Qed.

Theorem c12_will_holds : forall es s, bc_run es = Some s -> c12_will es = true.
Proof.
  unfold c12_will.
  apply (scan_sound_inv wl_step will_I will_R will_I_init will_I_step will_step_lemma).
  unfold will_R, will_R', wl_new; cbn. repeat split; intros; try discriminate; auto.
  destruct H; discriminate. destruct H; discriminate.
Qed.
