(* ConnProofsE1.v — c07_release_in_ack (ConnSpec6.v) holds of every trace the
   broker-connection model accepts: the stored QoS 2 PUBLISH is deleted from the
   publisher's session only by a goroutine inside the acknowledgement closure of the
   Publish its PUBREL triggered.  The relation between the closure table of the model and
   the scanner's (open, busy) bookkeeping is pk_clo of ConnProofsB4.v (the prompt_acks
   scanner keeps the same two tables). *)
From Coq Require Import List NArith Bool Lia.
From GM Require Import Base.Lts Codec.Packet Session.Ids Session.Store Session.StoreProofs
  Broker.Conn Broker.ConnSpec Broker.ConnSpec6 Broker.ConnBase
  Broker.ConnProofsB1 Broker.ConnProofsB2 Broker.ConnProofsB3 Broker.ConnProofsB4.
Import ListNotations.
Open Scope N_scope.

Definition ra_rel (s : bc) (t : ra_st) : Prop :=
  last_rel s (ra_last t) /\ pk_clo (clos s) (ra_open t) (ra_busy t).

Lemma ra_last_next t e t' : ra_step t e = Some t' -> ra_last t' = lt_next (ra_last t) e.
Proof. intros H. unfold ra_step in H. destruct e; bm H; inv_some H; reflexivity. Qed.

(* events on which the scanner does nothing *)
Definition ra_quiet (e : event) : bool :=
  match e with
  | ENewConn | ERx _ _ | EPub _ _ (Some _) | EAckCall _ _ | EDelete _ Incoming _ _ | EAckRet _ _ => false
  | _ => true
  end.
Lemma ra_step_quiet t e : ra_quiet e = true -> ra_step t e = Some t.
Proof.
  destruct e; cbn [ra_quiet ra_step]; intros H; try discriminate H; try reflexivity.
  - destruct k; [discriminate H|reflexivity].
  - destruct d; [discriminate H|reflexivity].
Qed.

(* ---------------------------------------------------------------- closures *)

Lemma ra_clo s t e s' : inv_c07 s -> pk_clo (clos s) (ra_open t) (ra_busy t) -> step_clo s e = Some s' ->
  exists t', ra_step t e = Some t' /\ pk_clo (clos s') (ra_open t') (ra_busy t').
Proof.
  intros (I1 & I2 & _) Hc H. apply step_clo_cases in H.
  destruct H as [k g c id -> Hf Hs Hi Hk -> | k g c -> Hf Hs Hi Hk -> | k g c -> Hf Hs Hi -> | g id c -> Hf ->
                | g id c -> Hf -> | g c -> Hin Hs -> | g c -> Hin Hs -> | k g c -> Hf Hs -> | k g c -> Hf Hs Hi ->].
  - (* call of a pubcomp closure *)
    apply clo_find_in in Hf. destruct Hf as [Hin <-].
    assert (Ho : aget (ra_open t) (c_k c) = Some id) by (destruct Hc as (P1 & _); eapply P1; eassumption).
    cbn [ra_step]. rewrite Ho. eexists; split; [reflexivity|]. sf. cbn [ra_open ra_busy].
    apply pk_clo_call; auto. exact (in_closure_false _ _ Hi).
  - (* call of another closure *)
    apply clo_find_in in Hf. destruct Hf as [Hin <-].
    assert (Ho : aget (ra_open t) (c_k c) = None).
    { destruct (aget (ra_open t) (c_k c)) as [id'|] eqn:Ho; [|reflexivity]. exfalso.
      destruct Hc as (_ & _ & P5). destruct (P5 _ _ Ho) as (c1 & H1 & K1 & S1 & Kd1).
      assert (c1 = c) by (eapply ckeys_inj; eassumption). subst c1. eapply Hk, Kd1. }
    cbn [ra_step]. rewrite Ho. eexists; split; [reflexivity|]. rewrite clos_enq.
    apply pk_clo_set_irr; [exact I1|exact Hin|left; exact Hk|left; exact Hk|exact Hc].
  - (* call of a finished closure *)
    apply clo_find_in in Hf. destruct Hf as [Hin <-].
    assert (Ho : aget (ra_open t) (c_k c) = None).
    { destruct (aget (ra_open t) (c_k c)) as [id'|] eqn:Ho; [|reflexivity]. exfalso.
      destruct Hc as (_ & _ & P5). destruct (P5 _ _ Ho) as (c1 & H1 & K1 & S1 & Kd1).
      assert (c1 = c) by (eapply ckeys_inj; eassumption). subst c1. rewrite S1 in Hs. discriminate Hs. }
    cbn [ra_step]. rewrite Ho. eexists; split; [reflexivity|exact Hc].
  - (* delete ok: the goroutine is inside the closure for exactly this id *)
    apply clo_del_find_in in Hf. destruct Hf as (Hin & Hs & Hk).
    assert (Hb : aget (ra_busy t) g = Some id) by (destruct Hc as (_ & P2 & _); eapply P2; eassumption).
    cbn [ra_step]. rewrite Hb, N.eqb_refl. eexists; split; [reflexivity|]. rewrite clos_enq. cbn [ra_open ra_busy].
    apply pk_clo_del; auto using clo_on_del.
  - (* delete failed *)
    apply clo_del_find_in in Hf. destruct Hf as (Hin & Hs & Hk).
    assert (Hb : aget (ra_busy t) g = Some id) by (destruct Hc as (_ & P2 & _); eapply P2; eassumption).
    cbn [ra_step]. rewrite Hb, N.eqb_refl. eexists; split; [reflexivity|]. sf. cbn [ra_open ra_busy].
    apply pk_clo_del; auto using clo_on_del.
  - (* the closure's die: log *)
    cbn [ra_step]. eexists; split; [reflexivity|]. sf.
    apply pk_clo_set_irr; auto; right; [rewrite Hs|]; reflexivity.
  - (* the closure's die: close *)
    cbn [ra_step]. eexists; split; [reflexivity|].
    destruct (c_conn c =? conn_no s); sf; (apply pk_clo_set_irr; auto; right; [rewrite Hs|]; reflexivity).
  - (* return *)
    apply clo_find_in in Hf. destruct Hf as [Hin <-].
    cbn [ra_step]. eexists; split; [reflexivity|]. sf. cbn [ra_open ra_busy].
    apply pk_clo_del; auto. unfold clo_on. rewrite Hs. apply N.eqb_refl.
  - (* return of a finished closure *)
    cbn [ra_step]. eexists; split; [reflexivity|]. cbn [ra_open ra_busy].
    apply pk_clo_adel_free; [exact (in_closure_false _ _ Hi)|exact Hc].
Qed.

(* --------------------------------------------------------------- processor *)

Lemma ra_proc s t e s' g : gproc s = Some g -> ev_g e = Some g ->
  plast (pp s) (aget (ra_last t) g) -> pk_clo (clos s) (ra_open t) (ra_busy t) ->
  step_proc s e = Some s' ->
  exists t', ra_step t e = Some t' /\ pk_clo (clos s') (ra_open t') (ra_busy t').
Proof.
  intros Hg Heg HL Hc H.
  unfold step_proc, proc_dispatch, die_p, guard, take_pub, take_sub, clo_reg, take_deq_if_any, take_deq in H.
  destruct (pp s) eqn:Epp; destruct e; try discriminate H; bm H; inv_some H;
    cbn [ev_g] in Heg; injection Heg as Heg; subst; sf;
    try (eexists; split; [cbn [ra_step]; reflexivity|]; cbn [ra_open ra_busy];
         solve [exact Hc | apply pk_clo_app_other; [discriminate|exact Hc]]).
  - (* PPub1W: the closure stands for a PUBACK *)
    destruct HL as (d & m' & HL). cbn [ra_step]. rewrite HL.
    eexists; split; [reflexivity|]. apply pk_clo_app_other; [discriminate|exact Hc].
  - (* PRelPub: the closure stands for the PUBCOMP *)
    cbn [plast] in HL. cbn [ra_step]. rewrite HL.
    eexists; split; [reflexivity|]. cbn [ra_open ra_busy]. apply pk_clo_app_pc; assumption.
Qed.

(* -------------------------------------------------------------------- step *)

Lemma ra_hstep s t e s' : inv_c07 s -> ra_rel s t -> step s e = Some s' ->
  exists t', ra_step t e = Some t' /\ ra_rel s' t'.
Proof.
  intros Hi [HL HR] H.
  assert (Hmain : exists t', ra_step t e = Some t' /\ pk_clo (clos s') (ra_open t') (ra_busy t')).
  { pose proof H as H0. apply step_cases in H.
    destruct H as [-> _ -> | -> _ -> | -> _ -> | H | -> H
                  | g s1 _ Hev _ _ Hv H | g s1 _ _ _ _ _ Hv H | g s1 _ _ _ _ _ _ Hv H | g s1 _ _ _ _ _ _ _ Hv H
                  | g -> _ _ _ _ ->].
    - eexists; split; [reflexivity|exact HR].
    - eexists; split; [reflexivity|exact HR].
    - eexists; split; [reflexivity|exact HR].
    - eapply ra_clo; eassumption.
    - eexists; split; [reflexivity|]. apply step_cleanup_frame in H. destruct H as (_ & _ & Hc & _). rewrite Hc. exact HR.
    - assert (Hg1 : gproc s1 = Some g) by (destruct Hv as [[-> Hg]|(_ & _ & -> & _)]; [exact Hg|reflexivity]).
      assert (HL1 : plast (pp s1) (aget (ra_last t) g)).
      { destruct Hv as [[-> Hg]|(Hn & _ & -> & _)]; unfold last_rel in HL.
        - rewrite Hg in HL. exact HL.
        - rewrite Hn in HL. apply plast_none. exact HL. }
      assert (HR1 : pk_clo (clos s1) (ra_open t) (ra_busy t)) by (destruct Hv as [[-> _]|(_ & _ & -> & _)]; exact HR).
      eapply ra_proc; eassumption.
    - exists t. split.
      + apply ra_step_quiet. apply step_deq_event in H. destruct e; try contradiction; reflexivity.
      + apply step_deq_frame in H. destruct H as (_ & Hc & _). rewrite Hc.
        destruct Hv as [[-> _]|(_ & _ & ->)]; exact HR.
    - exists t. split.
      + apply ra_step_quiet. apply step_ack_event in H. destruct e; try contradiction; reflexivity.
      + apply step_ack_frame in H. destruct H as (_ & Hc & _). rewrite Hc.
        destruct Hv as [[-> _]|(_ & _ & ->)]; exact HR.
    - exists t. split.
      + apply ra_step_quiet. apply step_cleanup_event in H. destruct e; try discriminate H; try reflexivity.
        destruct k; [discriminate H|reflexivity].
      + apply step_cleanup_frame in H. destruct H as (_ & _ & Hc & _). rewrite Hc.
        destruct Hv as [[-> _]|(_ & _ & ->)]; exact HR.
    - eexists; split; [reflexivity|exact HR]. }
  destruct Hmain as (t' & Ht & Hc). exists t'. split; [exact Ht|]. split; [|exact Hc].
  rewrite (ra_last_next _ _ _ Ht). exact (last_hstep _ _ _ _ HL H).
Qed.

Theorem c07_release_in_ack_holds : forall es s, bc_run es = Some s -> c07_release_in_ack es = true.
Proof.
  unfold c07_release_in_ack.
  apply (scan_sound_inv ra_step inv_c07 ra_rel inv_c07_init inv_c07_step ra_hstep).
  split; [exact I|]. split; [|split]; cbn.
  - intros c id [].
  - intros c id g [].
  - intros k id E. discriminate E.
Qed.
