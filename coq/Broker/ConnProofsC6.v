(* ConnProofsC6.v — C08, second round: c08_popped_is_saved and
   c08_pubrel_after_store (Broker/ConnSpec3.v) hold of every accepted trace. *)
From Coq Require Import List NArith Bool Lia ZArith ZifyN ZifyNat ZifyBool.
From GM Require Import Base.Lts Codec.Packet Session.Ids Session.Store Session.StoreProofs
  Broker.Conn Broker.ConnSpec Broker.ConnSpec3 Broker.ConnBase Broker.ConnProofsCDefs
  Broker.ConnProofsC0 Broker.ConnProofsC1 Broker.ConnProofsC2 Broker.ConnProofsC3 Broker.ConnProofsC5.
Import ListNotations.
Open Scope N_scope.

(* both model invariants together *)
Definition INV2 (s : bc) : Prop := INV s /\ INVW s.
Lemma INV2_init : INV2 bc_init.
Proof. split; [exact INV_init|exact INVW_init]. Qed.
Lemma INV2_step s e s' : INV2 s -> step s e = Some s' -> INV2 s'.
Proof. intros [H1 H2] H. split; [eapply INV_step|eapply INVW_step]; eassumption. Qed.

(* =================================================== c08_popped_is_saved == *)

(* the scanner holds a pending message exactly while the dequeuer has a QoS>0 message
   in hand that it has not yet passed to SavePacket *)
Definition R_ps (s : bc) (t : list (N * message)) : Prop :=
  match dp s with
  | DNextId m _ => exists g, gdeq s = Some g /\ t = [(g, m)]
  | DSave p _ => exists g m id, gdeq s = Some g /\ p = Publish false m id /\ t = [(g, m)]
  | _ => t = []
  end.

Lemma ps_frame s s' t : dp s' = dp s -> gdeq s' = gdeq s -> R_ps s t -> R_ps s' t.
Proof. intros Ed Eg. unfold R_ps. rewrite Ed, Eg. exact (fun x => x). Qed.

Lemma ps_proc s t e s' : INV s -> R_ps s t -> step_proc s e = Some s' ->
  exists t', ps_step t e = Some t' /\ R_ps s' t'.
Proof.
  intros HI HR H. pose proof (I_pre _ HI) as Hpre. unfold step_proc, proc_dispatch, die_p, guard in H.
  inv_step H; inv_helpers; injection H as <-; subst; cbn [pre_loop] in Hpre.
  all: try (cbn [ps_step]; eexists; split; [reflexivity|]; (eapply ps_frame; [| |exact HR]); reflexivity).
  - cbn [ps_step]. eexists; split; [reflexivity|]. destruct fresh; (eapply ps_frame; [| |exact HR]); reflexivity.
  - cbn [ps_step]. eexists; split; [reflexivity|]. unfold take_deq_if_any, take_deq.
    destruct (0 <? tdeq s); (eapply ps_frame; [| |exact HR]); reflexivity.
  - cbn [ps_step]. eexists; split; [reflexivity|]. unfold take_deq_if_any, take_deq.
    destruct (0 <? tdeq s); (eapply ps_frame; [| |exact HR]); reflexivity.
  - cbn [ps_step]. eexists; split; [reflexivity|]. destruct (Hpre eq_refl) as [Hd _].
    unfold R_ps in *. rewrite Hd in HR. bcsimpl. exact HR.
Qed.

Lemma adel_single' {A} k (v : A) : adel [(k, v)] k = [].
Proof. unfold adel. cbn [filter fst]. rewrite N.eqb_refl. reflexivity. Qed.

Lemma ps_deq s t e s' g : INV s -> R_ps s t -> ev_g e = Some g -> gdeq s = Some g -> step_deq s e = Some s' ->
  exists t', ps_step t e = Some t' /\ R_ps s' t'.
Proof.
  intros HI HR Hg Hr H. pose proof (I_shape _ HI) as Hsh. unfold step_deq, guard in H. unfold R_ps in HR.
  inv_step H; inv_helpers; injection H as <-; subst; cbn [dp_shape] in Hsh; cbn [ev_g] in Hg; try injection Hg as ->.
  all: try (cbn [ps_step]; eexists; split; [reflexivity|]; unfold R_ps; bcsimpl; first [exact HR|reflexivity]).
  - (* DeqRet qos 0 *)
    cbn [ps_step]. match goal with Hq : (m_qos m =? 0) = true |- _ => rewrite Hq end.
    eexists; split; [reflexivity|]. unfold R_ps. destruct backack; bcsimpl; reflexivity.
  - (* DeqRet qos>0 *)
    cbn [ps_step]. match goal with Hq : (m_qos m =? 0) = false |- _ => rewrite Hq end.
    eexists; split; [reflexivity|]. unfold R_ps. bcsimpl. exists g. split; [exact Hr|reflexivity].
  - (* NextId *)
    cbn [ps_step]. eexists; split; [reflexivity|]. unfold R_ps. bcsimpl.
    destruct HR as (g' & G & ->). exists g', m, id. repeat split. exact G.
  - (* Save ok *)
    destruct HR as (g' & m & id & G & -> & ->). rewrite Hr in G. injection G as <-.
    match goal with Hq : packet_eqb _ _ = true |- _ => apply packet_eqb_publish_l in Hq; subst end.
    cbn [ps_step]. rewrite aget_single, message_eqb_refl, adel_single'.
    eexists; split; [reflexivity|]. unfold R_ps. destruct ba; bcsimpl; reflexivity.
  - (* Save fail *)
    destruct HR as (g' & m & id & G & -> & ->). rewrite Hr in G. injection G as <-.
    match goal with Hq : packet_eqb _ _ = true |- _ => apply packet_eqb_publish_l in Hq; subst end.
    cbn [ps_step]. rewrite aget_single, message_eqb_refl, adel_single'.
    eexists; split; [reflexivity|]. unfold R_ps. bcsimpl. reflexivity.
Qed.

Lemma ps_same s s' t : same_pd s s' -> R_ps s t -> R_ps s' t.
Proof. intros Hs. apply ps_frame; [apply (sp_dp _ _ Hs)|apply (sp_gdeq _ _ Hs)]. Qed.

Lemma ps_stopped s t : deq_can_stop s = true -> R_ps s t -> t = [].
Proof. unfold deq_can_stop, R_ps. destruct (dp s); intros Hc HR; try discriminate Hc; exact HR. Qed.

Lemma ps_frozen s s' t : frozen s s' -> R_ps s t -> R_ps s' t /\ t = [].
Proof.
  intros Hf HR. pose proof (fz_stop _ _ Hf) as Hst. unfold all_stopped in Hst.
  apply andb_prop in Hst as [Hst _]. apply andb_prop in Hst as [_ Hd].
  pose proof (ps_stopped _ _ Hd HR) as ->. split; [|reflexivity].
  unfold R_ps. rewrite (fz_dp _ _ Hf). destruct (dp s); reflexivity.
Qed.

Lemma ps_learned s s1 t : INV s -> learned s s1 -> R_ps s t -> R_ps s1 t.
Proof.
  intros HI [->|(g & _ & [[_ ->]|[[E ->]|[[_ ->]|[_ ->]]]])] HR; try exact HR.
  unfold R_ps in *. bcsimpl. pose proof (I_busy _ HI) as Hb.
  destruct (dp s); try exact HR; exfalso; apply Hb; try reflexivity; exact E.
Qed.

Lemma ps_step_clo t e : clo_event e -> ps_step t e = Some t.
Proof. destruct e; try contradiction; reflexivity. Qed.

Lemma ps_step_ok s t e s' : INV2 s -> R_ps s t -> step s e = Some s' ->
  exists t', ps_step t e = Some t' /\ R_ps s' t'.
Proof.
  intros [HI HW] HR H. apply step_inv in H.
  destruct H as [He Ho ->|He Ho ->|He Hq ->|Hc|g s1 Hg Hl Hr Ho Hp|g s1 Hg Hl Hr Ho Hnp Hd
                |g s1 Hg Hl Hr Ho Hnp Hnd Ha|g s1 Hg Hl Hr Ho Hc|He Hc|g He Ho ->].
  - subst e. exists []. split; [reflexivity|]. unfold R_ps. bcsimpl. reflexivity.
  - subst e. exists t. split; [reflexivity|exact HR].
  - subst e. exists t. split; [reflexivity|exact HR].
  - apply step_clo_sum in Hc as (He & Hs & _). exists t. split; [apply ps_step_clo; exact He|eapply ps_same; eassumption].
  - eapply ps_proc; [eapply INV_learned; eassumption|exact (ps_learned _ _ _ HI Hl HR)|exact Hp].
  - eapply ps_deq; [eapply INV_learned; eassumption|exact (ps_learned _ _ _ HI Hl HR)|exact Hg|exact Hr|exact Hd].
  - pose proof (step_ack_sum _ _ _ Ha) as (Hs & _ & He).
    exists t. split; [|eapply ps_same; [exact Hs|exact (ps_learned _ _ _ HI Hl HR)]].
    destruct e; try contradiction; reflexivity.
  - (* cleanup with a goroutine: never EClosed *)
    pose proof (ps_learned _ _ _ HI Hl HR) as HR1.
    apply step_cleanup_sum in Hc as (He & Hc). exists t.
    split; [destruct e; try contradiction; try reflexivity; discriminate Hg|].
    destruct Hc as [(Hs & _)|Hf]; [eapply ps_same; eassumption|apply (ps_frozen _ _ _ Hf HR1)].
  - (* EClosed *)
    subst e. assert (Ht : t = []).
    { unfold step_cleanup, guard in Hc. destruct (lp s) eqn:El; try discriminate Hc.
      - destruct (all_stopped s && negb (phase_geq_connected (ph s))) eqn:Ea; [|discriminate Hc].
        apply andb_prop in Ea as [Ea _]. unfold all_stopped in Ea.
        apply andb_prop in Ea as [Ea _]. apply andb_prop in Ea as [_ Ed]. exact (ps_stopped _ _ Ed HR).
      - destruct (W_gone _ HW) as [_ Hd]; [rewrite El; discriminate|].
        unfold R_ps in HR. destruct Hd as [Hd|Hd]; rewrite Hd in HR; exact HR. }
    subst t. exists []. split; [reflexivity|].
    apply step_cleanup_sum in Hc as (_ & [(Hs & _)|Hf]); [eapply ps_same; eassumption|apply (ps_frozen _ _ _ Hf HR)].
  - subst e. exists t. split; [reflexivity|]. (eapply ps_frame; [| |exact HR]); reflexivity.
Qed.

Theorem c08_popped_is_saved_holds : forall es s, bc_run es = Some s -> c08_popped_is_saved es = true.
Proof.
  apply (scan_sound_inv ps_step INV2 R_ps INV2_init INV2_step ps_step_ok).
  unfold R_ps. cbn. reflexivity.
Qed.

(* ================================================ c08_pubrel_after_store == *)

(* the scanner's entry for the processor mirrors PUBREC handling; before the main loop
   the processor has no entry (its last received packet is CONNECT) *)
Definition R_pl (s : bc) (t : list (N * (N * bool))) : Prop :=
  match pp s with
  | PRecSave id => exists g, gproc s = Some g /\ aget t g = Some (id, false)
  | PRelTx id => exists g, gproc s = Some g /\ aget t g = Some (id, true)
  | PAuth _ | PDeny | PSetup _ | PConnack _ _ | PAll | PResend _ | PRestore =>
      exists g, gproc s = Some g /\ aget t g = None
  | _ => True
  end.

Lemma pl_step_tx_none t g p a ok : aget t g = None -> pl_step t (ETx g p a ok) = Some t.
Proof. intros H. destruct p; cbn [pl_step]; try reflexivity. rewrite H. reflexivity. Qed.

Lemma pl_proc s t e s' g : INV s -> R_pl s t -> ev_g e = Some g -> gproc s = Some g -> step_proc s e = Some s' ->
  exists t', pl_step t e = Some t' /\ R_pl s' t'.
Proof.
  intros HI HR Hg Hr H. unfold step_proc, proc_dispatch, die_p, guard in H. unfold R_pl in HR.
  inv_step H; inv_helpers; injection H as <-; subst; cbn [ev_g] in Hg; try injection Hg as ->.
  all: try (cbn [pl_step]; eexists; split; [reflexivity|]; unfold R_pl; bcsimpl; first [exact HR|exact I]).
  - (* Rx Connect *) cbn [pl_step]. eexists; split; [reflexivity|]. unfold R_pl. bcsimpl.
    exists g. split; [exact Hr|]. rewrite aget_adel, N.eqb_refl. reflexivity.
  - (* Setup *) cbn [pl_step]. eexists; split; [reflexivity|]. destruct fresh; unfold R_pl; bcsimpl; exact HR.
  - (* All *) cbn [pl_step]. eexists; split; [reflexivity|]. destruct l; unfold R_pl; bcsimpl; exact HR.
  - (* Resend ok *)
    destruct HR as (g' & G & A). rewrite Hr in G. injection G as <-.
    rewrite (pl_step_tx_none _ _ _ _ _ A). eexists; split; [reflexivity|].
    unfold take_deq_if_any, take_deq. destruct (0 <? tdeq s); destruct l; unfold R_pl; bcsimpl;
      (exists g; split; [exact Hr|exact A]).
  - destruct HR as (g' & G & A). rewrite Hr in G. injection G as <-.
    rewrite (pl_step_tx_none _ _ _ _ _ A). eexists; split; [reflexivity|].
    unfold take_deq_if_any, take_deq. destruct (0 <? tdeq s); unfold R_pl; bcsimpl; exact I.
  - (* Rx Pubrec *) cbn [pl_step]. eexists; split; [reflexivity|]. unfold R_pl. bcsimpl.
    exists g. split; [exact Hr|apply aget_aput_same].
  - (* RecSave ok *)
    destruct HR as (g' & G & A). rewrite Hr in G. injection G as <-.
    match goal with Hq : (_ =? _) = true |- _ => apply N.eqb_eq in Hq; subst end.
    cbn [pl_step]. rewrite A, N.eqb_refl. eexists; split; [reflexivity|]. unfold R_pl. bcsimpl.
    exists g. split; [exact Hr|apply aget_aput_same].
  - (* RelTx ok *)
    destruct HR as (g' & G & A). rewrite Hr in G. injection G as <-.
    match goal with Hq : (_ =? _) = true |- _ => apply N.eqb_eq in Hq; subst end.
    cbn [pl_step]. rewrite A, N.eqb_refl. eexists; split; [reflexivity|]. unfold R_pl. bcsimpl. exact I.
  - destruct HR as (g' & G & A). rewrite Hr in G. injection G as <-.
    match goal with Hq : (_ =? _) = true |- _ => apply N.eqb_eq in Hq; subst end.
    cbn [pl_step]. rewrite A, N.eqb_refl. eexists; split; [reflexivity|]. unfold R_pl. bcsimpl. exact I.
Qed.

Lemma pl_frame s s' t : pp s' = pp s -> gproc s' = gproc s -> R_pl s t -> R_pl s' t.
Proof. intros Ep Eg. unfold R_pl. rewrite Ep, Eg. exact (fun x => x). Qed.

(* events of other goroutines leave the processor's entry alone *)
Lemma pl_other s t t' : (forall g, gproc s = Some g -> aget t' g = aget t g) -> R_pl s t -> R_pl s t'.
Proof.
  intros Ht. unfold R_pl. destruct (pp s); try exact (fun x => x);
    intros (g & G & A); exists g; (split; [exact G|rewrite (Ht g G); exact A]).
Qed.

Lemma pl_deq s t e s' g : INV s -> R_pl s t -> ev_g e = Some g -> gdeq s = Some g -> step_deq s e = Some s' ->
  exists t', pl_step t e = Some t' /\ R_pl s' t'.
Proof.
  intros HI HR Hg Hr H. pose proof (I_shape _ HI) as Hsh. unfold step_deq, guard in H.
  inv_step H; inv_helpers; injection H as <-; subst; cbn [dp_shape] in Hsh; cbn [ev_g] in Hg; try injection Hg as ->.
  all: try (cbn [pl_step]; eexists; split; [reflexivity|]; (eapply pl_frame; [| |exact HR]); reflexivity).
  - (* Save ok *) destruct Hsh as (m & id & -> & _).
    match goal with Hq : packet_eqb _ _ = true |- _ => apply packet_eqb_publish_l in Hq; subst end.
    cbn [pl_step]. eexists; split; [reflexivity|]. destruct ba; (eapply pl_frame; [| |exact HR]); reflexivity.
  - destruct Hsh as (m & id & -> & _).
    match goal with Hq : packet_eqb _ _ = true |- _ => apply packet_eqb_publish_l in Hq; subst end.
    cbn [pl_step]. eexists; split; [reflexivity|]. (eapply pl_frame; [| |exact HR]); reflexivity.
  - (* Send ok *) destruct Hsh as (m & id & ->).
    match goal with Hq : packet_eqb _ _ = true |- _ => apply packet_eqb_publish_l in Hq; subst end.
    cbn [pl_step]. eexists; split; [reflexivity|]. destruct (m_qos m =? 0); (eapply pl_frame; [| |exact HR]); reflexivity.
  - destruct Hsh as (m & id & ->).
    match goal with Hq : packet_eqb _ _ = true |- _ => apply packet_eqb_publish_l in Hq; subst end.
    cbn [pl_step]. eexists; split; [reflexivity|]. (eapply pl_frame; [| |exact HR]); reflexivity.
Qed.

Lemma pl_same s s' t : same_pd s s' -> R_pl s t -> R_pl s' t.
Proof. intros Hs. apply pl_frame; [apply (sp_pp _ _ Hs)|apply (sp_gproc _ _ Hs)]. Qed.

Lemma pl_frozen s s' t : frozen s s' -> R_pl s' t.
Proof. intros Hf. unfold R_pl. rewrite (fz_pp _ _ Hf). exact I. Qed.

Lemma pl_learned s s1 t : learned s s1 -> R_pl s t -> R_pl s1 t.
Proof.
  intros Hl HR. destruct (learned_role_kept' _ _ Hl) as [Kp Ep].
  unfold R_pl in *. rewrite Ep. destruct (pp s); try exact HR;
    destruct HR as (g & G & A); exists g; (split; [apply Kp; exact G|exact A]).
Qed.

Lemma pl_step_clo t e : clo_event e -> pl_step t e = Some t.
Proof. destruct e; try contradiction; reflexivity. Qed.

Lemma pl_step_cl t e : cl_event e -> pl_step t e = Some t.
Proof. destruct e; try contradiction; reflexivity. Qed.

Lemma pl_step_tx_ack t g p a ok : is_ack_packet p = true -> pl_step t (ETx g p a ok) = Some t.
Proof. destruct p; try discriminate; reflexivity. Qed.

Lemma pl_step_ok s t e s' : INV s -> R_pl s t -> step s e = Some s' ->
  exists t', pl_step t e = Some t' /\ R_pl s' t'.
Proof.
  intros HI HR H. apply step_inv in H.
  destruct H as [He Ho ->|He Ho ->|He Hq ->|Hc|g s1 Hg Hl Hr Ho Hp|g s1 Hg Hl Hr Ho Hnp Hd
                |g s1 Hg Hl Hr Ho Hnp Hnd Ha|g s1 Hg Hl Hr Ho Hc|He Hc|g He Ho ->].
  - subst e. exists []. split; [reflexivity|]. unfold R_pl. bcsimpl. exact I.
  - subst e. exists t. split; [reflexivity|exact HR].
  - subst e. exists t. split; [reflexivity|exact HR].
  - apply step_clo_sum in Hc as (He & Hs & _). exists t. split; [apply pl_step_clo; exact He|eapply pl_same; eassumption].
  - eapply pl_proc; [eapply INV_learned; eassumption|exact (pl_learned _ _ _ Hl HR)|exact Hg|exact Hr|exact Hp].
  - eapply pl_deq; [eapply INV_learned; eassumption|exact (pl_learned _ _ _ Hl HR)|exact Hg|exact Hr|exact Hd].
  - pose proof (INV_learned _ _ Hl HI) as HI1. pose proof (step_ack_sum _ _ _ Ha) as (Hs & _ & He).
    exists t. split; [|eapply pl_same; [exact Hs|exact (pl_learned _ _ _ Hl HR)]].
    destruct e; try contradiction; try reflexivity.
    destruct async; [|contradiction]. destruct He as (q' & Ht & _).
    apply pl_step_tx_ack. eapply ackq_take_is_ack; [exact Ht|apply (I_ackq _ HI1)].
  - apply step_cleanup_sum in Hc as (He & [(Hs & _)|Hf]); exists t; (split; [apply pl_step_cl; exact He|]).
    + eapply pl_same; [exact Hs|exact (pl_learned _ _ _ Hl HR)].
    + eapply pl_frozen; exact Hf.
  - apply step_cleanup_sum in Hc as (He' & [(Hs & _)|Hf]); exists t; (split; [apply pl_step_cl; exact He'|]).
    + eapply pl_same; eassumption.
    + eapply pl_frozen; exact Hf.
  - subst e. exists t. split; [reflexivity|]. (eapply pl_frame; [| |exact HR]); reflexivity.
Qed.

Theorem c08_pubrel_after_store_holds : forall es s, bc_run es = Some s -> c08_pubrel_after_store es = true.
Proof.
  apply (scan_sound_inv pl_step INV R_pl INV_init INV_step pl_step_ok).
  unfold R_pl. cbn. exact I.
Qed.
