(* BackendProofs.v — basic facts: boolean equalities, association lists, and
   MatchFirst (`pick`) against the MQTT matching relation. *)
From Coq Require Import List NArith Bool Lia.
From Coq.Strings Require Import Byte.
From GM Require Import Codec.Packet Topic.MatchSpec Broker.Backend Broker.BackendSpec.
Import ListNotations.
Open Scope N_scope.

(* ------------------------------------------------------------------ boolean equalities *)
Lemma byte_eqb_eq a b : Byte.eqb a b = true <-> a = b.
Proof. apply Byte.byte_dec_bl || (split; [apply Byte.byte_dec_bl|intros ->; apply Byte.byte_dec_lb; reflexivity]). Qed.

Lemma bytes_eqb_eq a b : bytes_eqb a b = true <-> a = b.
Proof.
  revert b; induction a as [|x a IH]; intros [|y b]; cbn [bytes_eqb]; try (split; [discriminate|discriminate]); [tauto|].
  rewrite andb_true_iff, byte_eqb_eq, IH. split; [intros [-> ->]; reflexivity|intros H; injection H; auto].
Qed.
Lemma bytes_eqb_refl a : bytes_eqb a a = true.
Proof. apply bytes_eqb_eq; reflexivity. Qed.
Lemma bytes_eqb_neq a b : bytes_eqb a b = false <-> a <> b.
Proof. rewrite <- bytes_eqb_eq. destruct (bytes_eqb a b); split; congruence. Qed.

Lemma level_eqb_eq a b : level_eqb a b = true <-> a = b.
Proof.
  revert b; induction a as [|x a IH]; intros [|y b]; cbn [level_eqb]; try (split; [discriminate|discriminate]); [tauto|].
  rewrite andb_true_iff, byte_eqb_eq, IH. split; [intros [-> ->]; reflexivity|intros H; injection H; auto].
Qed.

Lemma n_eqb_eq (a b : N) : (a =? b) = true <-> a = b.
Proof. apply N.eqb_eq. Qed.

Lemma message_eqb_eq a b : message_eqb a b = true <-> a = b.
Proof.
  destruct a as [t p q r], b as [t' p' q' r']; unfold message_eqb; cbn [m_topic m_payload m_qos m_retain].
  rewrite !andb_true_iff, !bytes_eqb_eq, N.eqb_eq, Bool.eqb_true_iff.
  split; [intros [[[-> ->] ->] ->]; reflexivity|intros H; injection H; auto].
Qed.
Lemma message_eqb_refl a : message_eqb a a = true.
Proof. apply message_eqb_eq; reflexivity. Qed.

Lemma list_eqb_eq {A} (eqb : A -> A -> bool) (H : forall a b, eqb a b = true <-> a = b) l l' :
  list_eqb eqb l l' = true <-> l = l'.
Proof.
  revert l'; induction l as [|x l IH]; intros [|y l']; cbn [list_eqb]; try (split; [discriminate|discriminate]); [tauto|].
  rewrite andb_true_iff, H, IH. split; [intros [-> ->]; reflexivity|intros E; injection E; auto].
Qed.

Lemma msgs_eqb_eq a b : msgs_eqb a b = true <-> a = b.
Proof. apply list_eqb_eq, message_eqb_eq. Qed.
Lemma msgs_eqb_refl a : msgs_eqb a a = true.
Proof. apply msgs_eqb_eq; reflexivity. Qed.

Lemma sub_eqb_eq (a b : sub) : sub_eqb a b = true <-> a = b.
Proof.
  destruct a as [f q], b as [f' q']; unfold sub_eqb; cbn [fst snd].
  rewrite andb_true_iff, bytes_eqb_eq, N.eqb_eq. split; [intros [-> ->]; reflexivity|intros H; injection H; auto].
Qed.
Lemma subs_eqb_eq a b : subs_eqb a b = true <-> a = b.
Proof. apply list_eqb_eq, sub_eqb_eq. Qed.
Lemma subs_eqb_refl a : subs_eqb a a = true.
Proof. apply subs_eqb_eq; reflexivity. Qed.

Lemma option_eqb_eq {A} (eqb : A -> A -> bool) (H : forall a b, eqb a b = true <-> a = b) (x y : option A) :
  option_eqb eqb x y = true <-> x = y.
Proof.
  destruct x as [x|], y as [y|]; cbn [option_eqb]; try (split; [discriminate|discriminate]); [|tauto].
  rewrite H. split; [intros ->; reflexivity|intros E; injection E; auto].
Qed.
Lemma act_eqb_refl (a : option conn) : option_eqb N.eqb a a = true.
Proof. apply (option_eqb_eq N.eqb N.eqb_eq); reflexivity. Qed.

Lemma session_eqb_eq a b : session_eqb a b = true <-> a = b.
Proof.
  destruct a as [s t q c], b as [s' t' q' c']; unfold session_eqb; cbn [s_subs s_tq s_sq s_act].
  rewrite !andb_true_iff, subs_eqb_eq, !msgs_eqb_eq, (option_eqb_eq N.eqb N.eqb_eq).
  split; [intros [[[-> ->] ->] ->]; reflexivity|intros H; injection H; auto].
Qed.
Lemma session_eqb_refl a : session_eqb a a = true.
Proof. apply session_eqb_eq; reflexivity. Qed.

Lemma skey_eqb_eq a b : skey_eqb a b = true <-> a = b.
Proof.
  destruct a as [c|i], b as [c'|i']; cbn [skey_eqb]; try (split; [discriminate|discriminate]).
  - rewrite N.eqb_eq. split; [intros ->; reflexivity|intros H; injection H; auto].
  - rewrite bytes_eqb_eq. split; [intros ->; reflexivity|intros H; injection H; auto].
Qed.

(* ------------------------------------------------------------------ association lists *)
Section AssocFacts.
  Context {K V : Type} (eqb : K -> K -> bool).
  Hypothesis eqb_eq : forall a b, eqb a b = true <-> a = b.

  Lemma eqb_refl' a : eqb a a = true. Proof. apply eqb_eq; reflexivity. Qed.
  Lemma eqb_neq' a b : a <> b -> eqb a b = false.
  Proof. intros H. destruct (eqb a b) eqn:E; [apply eqb_eq in E; contradiction|reflexivity]. Qed.

  Lemma alookup_aset (k k' : K) (v : V) l :
    alookup eqb k' (aset eqb k v l) = if eqb k' k then Some v else alookup eqb k' l.
  Proof.
    induction l as [|[k0 v0] l IH]; cbn [aset alookup]; [reflexivity|].
    destruct (eqb k k0) eqn:E.
    - apply eqb_eq in E; subst k0. cbn [alookup]. destruct (eqb k' k); reflexivity.
    - cbn [alookup]. destruct (eqb k' k0) eqn:E2.
      + apply eqb_eq in E2; subst k0. destruct (eqb k' k) eqn:E3; [|reflexivity].
        apply eqb_eq in E3; subst k'. rewrite eqb_refl' in E; discriminate.
      + exact IH.
  Qed.

  Lemma alookup_aremove (k k' : K) (l : list (K * V)) :
    alookup eqb k' (aremove eqb k l) = if eqb k' k then None else alookup eqb k' l.
  Proof.
    induction l as [|[k0 v0] l IH]; cbn [aremove alookup]; [destruct (eqb k' k); reflexivity|].
    destruct (eqb k k0) eqn:E.
    - apply eqb_eq in E; subst k0. rewrite IH. destruct (eqb k' k); reflexivity.
    - cbn [alookup]. destruct (eqb k' k0) eqn:E2; [|exact IH].
      apply eqb_eq in E2; subst k0. destruct (eqb k' k) eqn:E3; [|reflexivity].
      apply eqb_eq in E3; subst k'. rewrite eqb_refl' in E; discriminate.
  Qed.

  Lemma alookup_In k (v : V) l : alookup eqb k l = Some v -> In (k, v) l.
  Proof.
    induction l as [|[k0 v0] l IH]; cbn [alookup]; [discriminate|].
    destruct (eqb k k0) eqn:E; [apply eqb_eq in E; subst k0; intros H; injection H as ->; left; reflexivity|right; auto].
  Qed.

  Lemma In_alookup k (v : V) l : NoDup (map fst l) -> In (k, v) l -> alookup eqb k l = Some v.
  Proof.
    induction l as [|[k0 v0] l IH]; cbn [alookup map fst]; [intros _ []|].
    intros ND [H|H].
    - injection H as -> ->. rewrite eqb_refl'; reflexivity.
    - inversion ND as [|? ? Hn ND']; subst. destruct (eqb k k0) eqn:E; [|auto].
      apply eqb_eq in E; subst k0. exfalso; apply Hn. change k with (fst (k, v)); apply in_map; exact H.
  Qed.

  Lemma alookup_None k (l : list (K * V)) : alookup eqb k l = None -> ~ In k (map fst l).
  Proof.
    induction l as [|[k0 v0] l IH]; cbn [alookup map fst]; [intros _ []|].
    destruct (eqb k k0) eqn:E; [discriminate|]. intros H [H1|H1]; [subst; rewrite eqb_refl' in E; discriminate|exact (IH H H1)].
  Qed.

  Lemma keys_aset k (v : V) l x : In x (map fst (aset eqb k v l)) <-> x = k \/ In x (map fst l).
  Proof.
    induction l as [|[k0 v0] l IH]; cbn [aset map fst In]; [intuition|].
    destruct (eqb k k0) eqn:E.
    - apply eqb_eq in E; subst k0. cbn [map fst In]. intuition.
    - cbn [map fst In]. rewrite IH. intuition.
  Qed.

  Lemma nodup_aset k (v : V) l : NoDup (map fst l) -> NoDup (map fst (aset eqb k v l)).
  Proof.
    induction l as [|[k0 v0] l IH]; cbn [aset map fst]; intros ND.
    - constructor; [intros []|constructor].
    - inversion ND as [|? ? Hn ND']; subst. destruct (eqb k k0) eqn:E.
      + apply eqb_eq in E; subst k0. cbn [map fst]. constructor; assumption.
      + cbn [map fst]. constructor; [|auto].
        rewrite keys_aset. intros [->|H]; [rewrite eqb_refl' in E; discriminate|contradiction].
  Qed.

  Lemma keys_aremove k (l : list (K * V)) x : In x (map fst (aremove eqb k l)) <-> x <> k /\ In x (map fst l).
  Proof.
    induction l as [|[k0 v0] l IH]; cbn [aremove map fst In]; [intuition|].
    destruct (eqb k k0) eqn:E.
    - apply eqb_eq in E; subst k0. rewrite IH. intuition congruence.
    - cbn [map fst In]. rewrite IH. split; [intros [->|[H1 H2]]|intros [H1 [H2|H2]]]; auto.
      split; [intros ->; rewrite eqb_refl' in E; discriminate|left; reflexivity].
  Qed.

  Lemma nodup_aremove k (l : list (K * V)) : NoDup (map fst l) -> NoDup (map fst (aremove eqb k l)).
  Proof.
    induction l as [|[k0 v0] l IH]; cbn [aremove map fst]; intros ND; [constructor|].
    inversion ND as [|? ? Hn ND']; subst. destruct (eqb k k0); [auto|].
    cbn [map fst]. constructor; [|auto]. rewrite keys_aremove. intros [_ H]; contradiction.
  Qed.

  Lemma alookup_map (g : K -> V -> V) k l :
    alookup eqb k (map (fun e => (fst e, g (fst e) (snd e))) l) = option_map (g k) (alookup eqb k l).
  Proof.
    induction l as [|[k0 v0] l IH]; cbn [map alookup fst snd option_map]; [reflexivity|].
    destruct (eqb k k0) eqn:E; [apply eqb_eq in E; subst k0; reflexivity|exact IH].
  Qed.

  Lemma keys_map (g : K -> V -> V) (l : list (K * V)) :
    map fst (map (fun e => (fst e, g (fst e) (snd e))) l) = map fst l.
  Proof. rewrite map_map; cbn [fst]; reflexivity. Qed.
End AssocFacts.

Lemma nodup_keys_iff {V} (l : list (bytes * V)) : nodup_keys l = true <-> NoDup (map fst l).
Proof.
  induction l as [|[k v] l IH]; cbn [nodup_keys map fst]; [split; [constructor|reflexivity]|].
  rewrite andb_true_iff, negb_true_iff, IH. split.
  - intros [H ND]; constructor; [|exact ND]. intros Hin. apply in_map_iff in Hin as [[k' v'] [E Hin]]; cbn in E; subst k'.
    assert (X : existsb (fun x => bytes_eqb k (fst x)) l = true)
      by (apply existsb_exists; exists (k, v'); split; [exact Hin|apply bytes_eqb_refl]).
    congruence.
  - intros ND; inversion ND as [|? ? Hn ND']; subst. split; [|exact ND'].
    destruct (existsb (fun x => bytes_eqb k (fst x)) l) eqn:E; [|reflexivity].
    apply existsb_exists in E as [[k' v'] [Hin E]]; cbn in E. apply bytes_eqb_eq in E; subst k'.
    exfalso; apply Hn. change k with (fst (k, v')); apply in_map; exact Hin.
Qed.

(* ------------------------------------------------------------------ MatchFirst finds a matching filter iff there is one *)
Lemma find_some_In {A} (p : A -> bool) l x : find p l = Some x -> In x l /\ p x = true.
Proof. apply find_some. Qed.

Lemma in_step_plus {A} (subs : list (list level * A)) t a :
  In (t, a) (step_plus subs) <-> exists h, is_plus h = true /\ In (h :: t, a) subs.
Proof.
  unfold step_plus. rewrite in_flat_map. split.
  - intros [[fs a'] [Hin H]]; cbn [fst snd] in H. destruct fs as [|h t']; [destruct H|].
    destruct (is_plus h) eqn:E; [|destruct H]. destruct H as [H|[]]; injection H as -> ->. exists h; auto.
  - intros [h [E Hin]]. exists (h :: t, a); split; [exact Hin|]. cbn [fst snd]. rewrite E; left; reflexivity.
Qed.

Lemma in_step_lit {A} l (subs : list (list level * A)) t a :
  In (t, a) (step_lit l subs) <-> In (l :: t, a) subs.
Proof.
  unfold step_lit. rewrite in_flat_map. split.
  - intros [[fs a'] [Hin H]]; cbn [fst snd] in H. destruct fs as [|h t']; [destruct H|].
    destruct (level_eqb h l) eqn:E; [|destruct H]. destruct H as [H|[]]; injection H as -> ->.
    apply level_eqb_eq in E; subst h; exact Hin.
  - intros Hin. exists (l :: t, a); split; [exact Hin|]. cbn [fst snd].
    replace (level_eqb l l) with true by (symmetry; apply level_eqb_eq; reflexivity). left; reflexivity.
Qed.

Lemma only_hash_matches f n : only_hash f = true -> matches f n = true.
Proof.
  destruct f as [|l [|l' f]]; cbn [only_hash]; try discriminate. intros H.
  cbn [matches]. rewrite H. reflexivity.
Qed.

Lemma pick_sound {A} (n : list level) : forall (subs : list (list level * A)) a,
  pick n subs = Some a -> exists f, In (f, a) subs /\ matches f n = true.
Proof.
  induction n as [|l n IH]; intros subs a; cbn [pick].
  - destruct (find (fun e => only_hash (fst e)) subs) as [[f a']|] eqn:F.
    + intros H; injection H as <-. apply find_some in F as [Hin Hh]. exists f; split; [exact Hin|apply only_hash_matches; exact Hh].
    + destruct (find (fun e => is_nil (fst e)) subs) as [[f a']|] eqn:F2; cbn [option_map]; [|discriminate].
      intros H; injection H as <-. apply find_some in F2 as [Hin Hn]. cbn [fst] in Hn. destruct f; [|discriminate].
      exists []; split; [exact Hin|reflexivity].
  - destruct (find (fun e => only_hash (fst e)) subs) as [[f a']|] eqn:F.
    + intros H; injection H as <-. apply find_some in F as [Hin Hh]. exists f; split; [exact Hin|apply only_hash_matches; exact Hh].
    + destruct (if is_plus l || is_hash l then None else pick n (step_lit l subs)) as [r|] eqn:E1.
      * intros H; injection H as <-. destruct (is_plus l || is_hash l); [discriminate|].
        apply IH in E1 as [f [Hin Hm]]. apply in_step_lit in Hin.
        exists (l :: f); split; [exact Hin|]. cbn [matches].
        assert (X : level_eqb l l = true) by (apply level_eqb_eq; reflexivity).
        rewrite X, orb_true_r, Hm. destruct (is_hash l && _); reflexivity.
      * intros H. apply IH in H as [f [Hin Hm]]. apply in_step_plus in Hin as [h [Hp Hin]].
        exists (h :: f); split; [exact Hin|]. cbn [matches]. rewrite Hp, Hm. destruct (is_hash h && _); reflexivity.
Qed.

Lemma is_plus_not_hash l : is_plus l = true -> is_hash l = false.
Proof.
  unfold is_plus, is_hash. intros H. apply level_eqb_eq in H; subst l. vm_compute; reflexivity.
Qed.

Lemma find_none_not {A} (p : A -> bool) l x : find p l = None -> In x l -> p x = false.
Proof. intros H Hin. exact (find_none p l H x Hin). Qed.

Lemma pick_complete {A} (n : list level) : forall (subs : list (list level * A)) f a,
  forallb (fun l => negb (is_hash l)) n = true ->
  In (f, a) subs -> matches f n = true -> pick n subs <> None.
Proof.
  induction n as [|l n IH]; intros subs f a Hn Hin Hm; cbn [pick].
  - destruct (find (fun e => only_hash (fst e)) subs) as [e|] eqn:F; [discriminate|].
    assert (Hh := find_none_not _ _ _ F Hin); cbn [fst] in Hh.
    destruct f as [|h f'].
    + destruct (find (fun e => is_nil (fst e)) subs) as [e|] eqn:F2; [cbn; discriminate|].
      assert (X := find_none_not _ _ _ F2 Hin); cbn in X; discriminate.
    + cbn [matches] in Hm. destruct f' as [|h' f'']; cbn [only_hash] in Hh.
      * rewrite Hh in Hm; cbn in Hm; discriminate.
      * rewrite andb_false_r in Hm; discriminate.
  - destruct (find (fun e => only_hash (fst e)) subs) as [e|] eqn:F; [discriminate|].
    assert (Hh := find_none_not _ _ _ F Hin); cbn [fst] in Hh.
    cbn [forallb] in Hn. apply andb_true_iff in Hn as [Hl Hn]. apply negb_true_iff in Hl.
    destruct f as [|h f']; [cbn in Hm; discriminate|].
    cbn [matches] in Hm.
    assert (Hm' : (is_plus h || level_eqb h l) && matches f' n = true).
    { destruct (is_hash h && match f' with [] => true | _ :: _ => false end) eqn:E; [|exact Hm].
      apply andb_true_iff in E as [E1 E2]. destruct f'; [|discriminate]. cbn [only_hash] in Hh. congruence. }
    apply andb_true_iff in Hm' as [Hhl Hm'].
    destruct (is_plus h) eqn:Hp.
    + (* the '+' subtree reports something; whatever the literal subtree does, the result is Some *)
      assert (X : pick n (step_plus subs) <> None).
      { apply (IH _ f' a Hn); [apply in_step_plus; exists h; auto|exact Hm']. }
      destruct (if is_plus l || is_hash l then None else pick n (step_lit l subs)); [discriminate|exact X].
    + cbn [orb] in Hhl. apply level_eqb_eq in Hhl; subst h. rewrite Hp, Hl. cbn [orb].
      assert (X : pick n (step_lit l subs) <> None).
      { apply (IH _ f' a Hn); [apply in_step_lit; exact Hin|exact Hm']. }
      destruct (pick n (step_lit l subs)); [discriminate|contradiction].
Qed.

Lemma pick_sub_sound subs t s :
  pick_sub subs t = Some s -> In s subs /\ topic_matches (fst s) t = true.
Proof.
  unfold pick_sub. intros H. apply pick_sound in H as [f [Hin Hm]].
  apply in_map_iff in Hin as [s' [E Hin]]. injection E as <- ->. split; [exact Hin|exact Hm].
Qed.

Lemma pick_sub_complete subs t s :
  name_ok t = true -> In s subs -> topic_matches (fst s) t = true -> pick_sub subs t <> None.
Proof.
  unfold pick_sub, name_ok. intros Hn Hin Hm.
  apply (pick_complete _ _ (split_levels (fst s)) s Hn); [|exact Hm].
  apply in_map_iff. exists s; auto.
Qed.

(* lookupSubscription(topic) != nil  <->  the session holds a matching filter *)
Lemma pick_sub_has_match subs t :
  name_ok t = true -> is_some (pick_sub subs t) = has_match subs t.
Proof.
  intros Hn. unfold has_match. destruct (pick_sub subs t) as [s|] eqn:E; cbn [is_some].
  - apply pick_sub_sound in E as [Hin Hm]. symmetry. apply existsb_exists. exists s; auto.
  - destruct (existsb (fun s => topic_matches (fst s) t) subs) eqn:X; [|reflexivity].
    apply existsb_exists in X as [s [Hin Hm]]. exfalso. exact (pick_sub_complete subs t s Hn Hin Hm E).
Qed.

(* without the hypothesis on the name: what MatchFirst returns always matches *)
Lemma pick_sub_some_has_match subs t s : pick_sub subs t = Some s -> has_match subs t = true.
Proof. intros H. apply pick_sub_sound in H as [Hin Hm]. apply existsb_exists. exists s; auto. Qed.
