(* ConnProofsA_sc.v — C20_single_connack: on every trace the model accepts, at most
   one CONNACK is sent per connection, and after a second CONNECT or a
   server-only packet the processor sends nothing any more. *)
From Coq Require Import List NArith Bool Lia.
From GM Require Import Base.Lts Codec.Packet Session.Ids Session.Store
  Broker.Conn Broker.ConnSpec Broker.ConnBase Broker.ConnProofsA_lib Broker.ConnProofsA_inv.
Import ListNotations.
Open Scope N_scope.

(* control points at which the CONNACK is still to come *)
Definition pre_connack (p : ppc) : bool :=
  match p with PFirst | PAuth _ | PDeny | PSetup _ | PConnack _ _ => true | _ => false end.

Definition is_connack (p : packet) : bool := match p with Connack _ _ => true | _ => false end.

Definition sc_R (s : bc) (t : sc_st) : Prop :=
  (pp s = PFirst -> sc_first t = []) /\
  (forall g, nmem g (sc_mute t) = true -> gproc s = Some g /\ dead_pp (pp s) = true) /\
  (sc_connacks t <> 0 -> pre_connack (pp s) = false).

Definition sc_neutral (e : event) : bool :=
  match e with ENewConn | ERx _ _ | ETx _ _ _ _ => false | _ => true end.

Lemma sc_neutral_step t e : sc_neutral e = true -> sc_step t e = Some t.
Proof. destruct e; cbn; intros H; try discriminate H; reflexivity. Qed.

Lemma clo_event_sc_neutral e : clo_event e = true -> sc_neutral e = true.
Proof. destruct e; cbn; intros H; try discriminate H; reflexivity. Qed.

(* sc_R only looks at gproc and pp *)
Lemma sc_R_ext s s' t : gproc s' = gproc s -> pp s' = pp s -> sc_R s t -> sc_R s' t.
Proof. intros H1 H2. unfold sc_R. rewrite H1, H2. auto. Qed.

(* the processor never returns to PFirst, stays dead once dead, and never returns
   to a control point before the CONNACK *)
Lemma step_proc_mono s e s' : step_proc s e = Some s' ->
  pp s' <> PFirst /\ (dead_pp (pp s) = true -> dead_pp (pp s') = true) /\
  (pre_connack (pp s) = false -> pre_connack (pp s') = false).
Proof.
  intros Hp. unfold_proc Hp.
  destruct (pp s) eqn:Epp; destruct e; try discriminate Hp; bm Hp; inv_some Hp; sf;
    cbn [dead_pp pre_connack]; repeat split; intros; try discriminate; try reflexivity; try assumption.
Qed.

(* the only packets the processor sends *)
Lemma step_proc_tx s g p a ok s' : pp_ok (pp s) -> step_proc s (ETx g p a ok) = Some s' ->
  dead_pp (pp s) = false /\
  (is_connack p = true -> pre_connack (pp s) = true /\ pre_connack (pp s') = false).
Proof.
  intros Hok Hp. unfold_proc Hp.
  destruct (pp s) eqn:Epp; try discriminate Hp; bm Hp; inv_some Hp; sf; subst; cbn [dead_pp pre_connack is_connack pp_ok] in *;
    (split; [reflexivity|]); intros Hc; try discriminate Hc; try (split; reflexivity).
  all: match goal with Hx : packet_eqb _ _ = true |- _ => apply packet_eqb_eq in Hx; subst end.
  all: match goal with Hx : all_ok out_ok (?x :: _) |- _ => pose proof (all_ok_head _ _ _ Hx) as Hh end.
  all: match goal with Hx : out_ok ?x = true |- _ => destruct x; try discriminate Hx; discriminate Hc end.
Qed.

Lemma server_only_dies s p s' : pp s = PLoop -> server_only p = true -> proc_dispatch s p = Some s' ->
  dead_pp (pp s') = true.
Proof.
  intros _ Hso H. unfold proc_dispatch, die_p in H. destruct p; try discriminate Hso; inv_some H; reflexivity.
Qed.

Ltac sc_proj := cbn [sc_connacks sc_first sc_mute] in *.

Lemma sc_step_lemma s t e s' :
  inv_store s -> sc_R s t -> step s e = Some s' -> exists t', sc_step t e = Some t' /\ sc_R s' t'.
Proof.
  intros (_ & _ & Hppok & Hdpok & Hackok) HR H.
  destruct (step_cases _ _ _ H) as
      [-> Hl -> | -> Ho -> | -> Hq -> | Hc | -> Hc | g s1 Ho Hg Hc Hin Hv Hp | g s1 Ho Hg Hc Hin R1 Hv Hp
      | g s1 Ho Hg Hc Hin R1 R2 Hv Hp | g s1 Ho Hg Hc Hin R1 R2 R3 Hv Hp | g -> Ho Hc Hin Hfr ->].
  - (* ENewConn *)
    eexists. split; [reflexivity|]. unfold sc_R; sf; sc_proj. repeat split; intros; try discriminate; auto.
    contradiction.
  - exists t. split; [reflexivity|exact HR].
  - exists t. split; [reflexivity|exact HR].
  - (* closure *)
    exists t. split; [apply sc_neutral_step, clo_event_sc_neutral, (step_clo_event _ _ _ Hc)|].
    destruct (step_clo_shape _ _ _ Hc) as (se & cl & dy & q & ->). exact HR.
  - (* EClosed *)
    exists t. split; [reflexivity|].
    destruct (step_cleanup_shape _ _ _ Hc) as (p & d & a & l & -> & Hsh).
    destruct HR as (S1 & S2 & S3).
    destruct Hsh as [(-> & -> & -> & Hn)|(Hn & Hst & -> & -> & ->)]; unfold sc_R; sf;
      repeat split; intros; try discriminate; auto; try match goal with Hm : nmem _ _ = true |- _ => destruct (S2 _ Hm); assumption end.
  - (* processor *)
    destruct (step_proc_frame _ _ _ Hp) as (_ & Fg & _).
    destruct (step_proc_mono _ _ _ Hp) as (M1 & M2 & M3).
    assert (Hpp1 : pp s1 = pp s) by (destruct Hv as [[-> _]|(_ & _ & -> & _)]; reflexivity).
    assert (Hgp1 : gproc s1 = Some g) by (destruct Hv as [[-> Hx]|(_ & _ & -> & _)]; [exact Hx|reflexivity]).
    assert (Hmute : forall g', nmem g' (sc_mute t) = true -> g' = g /\ dead_pp (pp s1) = true).
    { intros g' Hm. destruct HR as (_ & S2 & _). destruct (S2 _ Hm) as [Hx Hy]. rewrite Hpp1. split; [|exact Hy].
      destruct Hv as [[-> Hz]|(Hz & _)]; congruence. }
    rewrite Hpp1 in *. destruct HR as (S1 & S2 & S3).
    destruct t as [connacks first mute]. sc_proj.
    destruct (sc_neutral e) eqn:Hn.
    { exists (ScSt connacks first mute). split; [apply sc_neutral_step, Hn|]. unfold sc_R; sc_proj.
      rewrite Fg, Hgp1. repeat split; intros; try contradiction; auto.
      - destruct (Hmute _ H0) as [-> _]. reflexivity.
      - apply M2. destruct (Hmute _ H0) as [_ Hx]. exact Hx. }
    destruct e; try discriminate Hn; cbn [ev_g] in Hg; try discriminate Hg; injection Hg as ->.
    + (* ERx *)
      cbn [sc_step]; sc_proj.
      destruct (nmem g first) eqn:Hf.
      * assert (Hl : pp s = PLoop).
        { unfold step_proc in Hp. rewrite Hpp1 in Hp. destruct (pp s) eqn:Epp; try discriminate Hp; try reflexivity;
            try (bm Hp; fail).
          rewrite (S1 eq_refl) in Hf. discriminate Hf. }
        destruct (server_only p) eqn:Hso.
        -- eexists. split; [reflexivity|]. unfold sc_R; sc_proj. rewrite Fg, Hgp1.
           assert (Hd : dead_pp (pp s') = true).
           { unfold step_proc in Hp. rewrite Hpp1, Hl in Hp. eapply server_only_dies; [rewrite Hpp1; exact Hl|exact Hso|exact Hp]. }
           repeat split; intros; try contradiction; auto.
           ++ cbn [nmem existsb] in H0. apply orb_true_iff in H0 as [H0|H0].
              ** apply N.eqb_eq in H0. congruence.
              ** destruct (Hmute _ H0) as [-> _]. reflexivity.
        -- eexists. split; [reflexivity|]. unfold sc_R; sc_proj. rewrite Fg, Hgp1.
           repeat split; intros; try contradiction; auto.
           ++ destruct (Hmute _ H0) as [-> _]. reflexivity.
           ++ apply M2. destruct (Hmute _ H0) as [_ Hx]. exact Hx.
      * eexists. split; [reflexivity|]. unfold sc_R; sc_proj. rewrite Fg, Hgp1.
        repeat split; intros; try contradiction; auto.
        ++ destruct (Hmute _ H0) as [-> _]. reflexivity.
        ++ apply M2. destruct (Hmute _ H0) as [_ Hx]. exact Hx.
    + (* ETx *)
      assert (Hok1 : pp_ok (pp s1)) by (rewrite Hpp1; exact Hppok).
      destruct (step_proc_tx _ _ _ _ _ _ Hok1 Hp) as [T1 T2]. rewrite Hpp1 in T1, T2.
      cbn [sc_step]; sc_proj.
      destruct (nmem g mute) eqn:Hm.
      { destruct (Hmute _ Hm) as [_ Hx]. congruence. }
      assert (Hkeep : sc_R s' (ScSt connacks first mute)).
      { unfold sc_R; sc_proj. rewrite Fg, Hgp1. repeat split; intros; try contradiction; auto.
        - destruct (Hmute _ H0) as [-> _]. reflexivity.
        - apply M2. destruct (Hmute _ H0) as [_ Hx]. exact Hx. }
      destruct p; try (eexists; split; [reflexivity|exact Hkeep]).
      destruct (T2 eq_refl) as [T3 T4].
      destruct (0 <? connacks) eqn:Hc0.
      { apply N.ltb_lt in Hc0. assert (Hne : connacks <> 0) by lia. rewrite (S3 Hne) in T3. discriminate T3. }
      eexists. split; [reflexivity|]. unfold sc_R; sc_proj. rewrite Fg, Hgp1.
      repeat split; intros; try contradiction; auto.
      * destruct (Hmute _ H0) as [-> _]. reflexivity.
      * apply M2. destruct (Hmute _ H0) as [_ Hx]. exact Hx.
  - (* dequeuer *)
    assert (Hgp : gproc s1 = gproc s) by (destruct Hv as [[-> _]|(_ & _ & ->)]; reflexivity).
    assert (Hpp1 : pp s1 = pp s) by (destruct Hv as [[-> _]|(_ & _ & ->)]; reflexivity).
    assert (Hdp1 : dp s1 = dp s) by (destruct Hv as [[-> _]|(_ & _ & ->)]; reflexivity).
    assert (HR' : sc_R s' t).
    { destruct (step_deq_shape _ _ _ Hp) as (se & d & dy & t1 & t2 & t3 & ->).
      eapply sc_R_ext; [| |exact HR]; sf; assumption. }
    destruct (sc_neutral e) eqn:Hn; [exists t; split; [apply sc_neutral_step, Hn|exact HR']|].
    unfold step_deq, guard in Hp. rewrite Hdp1 in Hp.
    destruct (dp s) eqn:Edp; destruct e; try discriminate Hp; try discriminate Hn.
    cbn [ev_g] in Hg. injection Hg as ->. cbn [dp_ok] in Hdpok.
    destruct async; try discriminate Hp. destruct (packet_eqb p p0) eqn:Ep; [|discriminate Hp].
    apply packet_eqb_eq in Ep. subst p0.
    cbn [sc_step]. destruct (nmem g (sc_mute t)) eqn:Hm.
    { destruct HR as (_ & S2 & _). destruct (S2 _ Hm) as [Hx _]. rewrite Hx, is_role_some in R1. discriminate R1. }
    exists t. split; [|exact HR']. destruct p; try discriminate Hdpok; reflexivity.
  - (* acker *)
    assert (Hgp : gproc s1 = gproc s) by (destruct Hv as [[-> _]|(_ & _ & ->)]; reflexivity).
    assert (Hpp1 : pp s1 = pp s) by (destruct Hv as [[-> _]|(_ & _ & ->)]; reflexivity).
    assert (Hq1 : ackq s1 = ackq s) by (destruct Hv as [[-> _]|(_ & _ & ->)]; reflexivity).
    assert (HR' : sc_R s' t).
    { destruct (step_ack_shape _ _ _ Hp) as (a & dy & t1 & t2 & t3 & q & ->).
      eapply sc_R_ext; [| |exact HR]; sf; assumption. }
    destruct (sc_neutral e) eqn:Hn; [exists t; split; [apply sc_neutral_step, Hn|exact HR']|].
    unfold step_ack in Hp. rewrite Hq1 in Hp.
    destruct (ap s1) eqn:Eap; destruct e; try discriminate Hp; try discriminate Hn.
    cbn [ev_g] in Hg. injection Hg as ->.
    destruct async; try discriminate Hp. destruct (ackq_take (ackq s) p) as [q'|] eqn:Eq; [|discriminate Hp].
    pose proof (ackq_take_in _ _ _ Eq) as Hin'.
    assert (Hack : is_ack_packet p = true).
    { unfold all_ok in Hackok. rewrite Forall_forall in Hackok. apply Hackok, Hin'. }
    cbn [sc_step]. destruct (nmem g (sc_mute t)) eqn:Hm.
    { destruct HR as (_ & S2 & _). destruct (S2 _ Hm) as [Hx _]. rewrite Hx, is_role_some in R1. discriminate R1. }
    exists t. split; [|exact HR']. destruct p; try discriminate Hack; reflexivity.
  - (* cleanup *)
    assert (Hgp : gproc s1 = gproc s) by (destruct Hv as [[-> _]|(_ & _ & ->)]; reflexivity).
    assert (Hpp1 : pp s1 = pp s) by (destruct Hv as [[-> _]|(_ & _ & ->)]; reflexivity).
    assert (Hn : sc_neutral e = true).
    { unfold step_cleanup in Hp. destruct (lp s1); destruct e; try discriminate Hp; reflexivity. }
    exists t. split; [apply sc_neutral_step, Hn|].
    destruct (step_cleanup_shape _ _ _ Hp) as (p & d & a & l & -> & Hsh).
    destruct HR as (S1 & S2 & S3).
    destruct Hsh as [(-> & -> & -> & Hnn)|(Hnn & Hst & -> & -> & ->)]; unfold sc_R; sf; rewrite ?Hgp, ?Hpp1;
      repeat split; intros; try discriminate; auto; try match goal with Hm : nmem _ _ = true |- _ => destruct (S2 _ Hm); assumption end.
  - (* Close() from outside *)
    exists t. split; [reflexivity|exact HR].
Qed.

Theorem c20_single_connack_holds : forall es s, bc_run es = Some s -> c20_single_connack es = true.
Proof.
  unfold c20_single_connack.
  apply (scan_sound_inv sc_step inv_store sc_R inv_store_init inv_store_step sc_step_lemma).
  unfold sc_R; cbn. repeat split; intros; try discriminate; auto; try contradiction.
Qed.
