(* ConnProofsF1.v — c08_ledger (ConnSpec7.v) holds of every trace the broker-connection
   model accepts.  The relation between model state and ledger:
     - the ledger's recorded entries ARE the model's outgoing store (up to the dup flag),
     - a message is in a goroutine's hand exactly while the dequeuer is between Dequeue
       and SavePacket (DNextId / DSave),
     - the processor about to delete / to store PUBREL has received the packet that
       justifies it,
     - while the processor re-sends, every packet still to re-send is in the store,
     - a goroutine that owes a session error is the dequeuer in DDieLog KSession,
     - the ledger's "connection open" flag is the model's.
   Model invariants used: INV (ConnProofsC1.v), INVW (ConnProofsC5.v). *)
From Coq Require Import List NArith Bool Lia.
From GM Require Import Base.Lts Codec.Packet Session.Ids Session.Store Session.StoreProofs
  Broker.Conn Broker.ConnSpec Broker.ConnSpec6 Broker.ConnSpec7 Broker.ConnBase Broker.ConnProofsCDefs
  Broker.ConnProofsC0 Broker.ConnProofsC1 Broker.ConnProofsC2 Broker.ConnProofsC5 Broker.ConnProofsC6.
From GM Require Broker.ConnProofsD0.
Import ListNotations.
Open Scope N_scope.

(* ------------------------------------------------------ stores and undup *)

Definition undup1 (e : N * packet) : N * packet := (fst e, undup (snd e)).

Lemma get_id_undup p : get_id (undup p) = get_id p.
Proof. destruct p; reflexivity. Qed.

Lemma undup_idem p : undup (undup p) = undup p.
Proof. destruct p; reflexivity. Qed.

Lemma undup_set_dup p : undup (set_dup p) = undup p.
Proof. destruct p; reflexivity. Qed.

Lemma map_undup1_put st i p : map undup1 (store_put st i p) = store_put (map undup1 st) i (undup p).
Proof.
  induction st as [|[j q] st IH]; cbn [store_put map]; [reflexivity|].
  unfold undup1 at 2. cbn [fst snd store_put].
  destruct (i =? j); cbn [map]; [reflexivity|]. rewrite IH. reflexivity.
Qed.

Lemma map_undup1_delete st i : map undup1 (store_delete st i) = store_delete (map undup1 st) i.
Proof.
  induction st as [|[j q] st IH]; cbn [store_delete map]; [reflexivity|].
  unfold undup1 at 2. cbn [fst snd store_delete].
  destruct (i =? j); cbn [map]; [reflexivity|]. rewrite IH. reflexivity.
Qed.

Lemma map_undup1_save st p : map undup1 (store_save st p) = store_save (map undup1 st) (undup p).
Proof. unfold store_save. rewrite get_id_undup. destruct (get_id p); [apply map_undup1_put|reflexivity]. Qed.

Lemma lookup_undup1 st i : store_lookup (map undup1 st) i = option_map undup (store_lookup st i).
Proof.
  induction st as [|[j q] st IH]; cbn [map store_lookup]; [reflexivity|].
  unfold undup1 at 1. cbn [fst snd store_lookup]. destruct (i =? j); [reflexivity|exact IH].
Qed.

Lemma keys_undup1 st : keys (map undup1 st) = keys st.
Proof. unfold keys. rewrite map_map. reflexivity. Qed.

Lemma all_undup1 st : store_all (map undup1 st) = map undup (store_all st).
Proof. unfold store_all. rewrite !map_map. reflexivity. Qed.

Lemma store_put_same st i p : store_lookup st i = Some p -> store_put st i p = st.
Proof.
  induction st as [|[j q] st IH]; cbn [store_lookup store_put]; [discriminate|].
  destruct (N.eqb_spec i j) as [->|Hne]; [intros E; injection E as ->; reflexivity|].
  intros E. rewrite (IH E). reflexivity.
Qed.

Lemma lookup_in st i p : NoDup (keys st) -> In (i, p) st -> store_lookup st i = Some p.
Proof.
  induction st as [|[j q] st IH]; cbn [keys map fst In store_lookup]; [tauto|].
  intros Hnd [E|Hin].
  - injection E as -> ->. rewrite N.eqb_refl. reflexivity.
  - inversion Hnd as [|? ? Hni Hnd']; subst.
    destruct (N.eqb_spec i j) as [->|Hne]; [|apply IH; assumption].
    exfalso. apply Hni. change (In (fst (j, p)) (map fst st)). apply in_map. exact Hin.
Qed.

Lemma nodup_save st p : NoDup (keys st) -> NoDup (keys (store_save st p)).
Proof. unfold store_save. intros H. destruct (get_id p); [apply nodup_put; exact H|exact H]. Qed.

(* --------------------------------------------------- the ledger's records *)

Lemma lg_live_cons x l : lg_live (x :: l) = opt_list (item_rec x) ++ lg_live l.
Proof. reflexivity. Qed.

Lemma lg_live_app a b : lg_live (a ++ b) = lg_live a ++ lg_live b.
Proof. unfold lg_live. apply flat_map_app. Qed.

Lemma holds_inv x id : holds x id = true -> exists q, item_rec x = Some (id, q).
Proof.
  unfold holds. destruct (item_rec x) as [[j q]|]; [|discriminate].
  intros H. apply N.eqb_eq in H. subst j. exists q. reflexivity.
Qed.

Lemma item_rec_id x i p : item_rec x = Some (i, p) -> get_id p = Some i /\ undup p = p.
Proof.
  destruct x as [a m [id|id|id| |id]|id [|]]; cbn [item_rec]; intros H; try discriminate H;
    injection H as <- <-; split; reflexivity.
Qed.

Lemma lg_live_upd_put f dflt id q l :
  (forall x, holds x id = true -> lg_live (f x) = [(id, q)]) -> lg_live dflt = [(id, q)] ->
  lg_live (lg_upd f dflt id l) = store_put (lg_live l) id q.
Proof.
  intros Hf Hd. induction l as [|x l IH]; cbn [lg_upd]; [exact Hd|].
  rewrite lg_live_cons. destruct (holds x id) eqn:Eh.
  - rewrite lg_live_app, (Hf x Eh). destruct (holds_inv _ _ Eh) as (p & E). rewrite E. cbn [opt_list app store_put].
    rewrite N.eqb_refl. reflexivity.
  - rewrite lg_live_cons, IH. unfold holds in Eh. destruct (item_rec x) as [[j p]|]; cbn [opt_list app store_put]; [|reflexivity].
    rewrite Eh. reflexivity.
Qed.

Lemma lg_live_upd_del f id l :
  (forall x, holds x id = true -> lg_live (f x) = []) ->
  lg_live (lg_upd f [] id l) = store_delete (lg_live l) id.
Proof.
  intros Hf. induction l as [|x l IH]; cbn [lg_upd]; [reflexivity|].
  rewrite lg_live_cons. destruct (holds x id) eqn:Eh.
  - rewrite lg_live_app, (Hf x Eh). destruct (holds_inv _ _ Eh) as (p & E). rewrite E. cbn [opt_list app store_delete].
    rewrite N.eqb_refl. reflexivity.
  - rewrite lg_live_cons, IH. unfold holds in Eh. destruct (item_rec x) as [[j p]|]; cbn [opt_list app store_delete]; [|reflexivity].
    rewrite Eh. reflexivity.
Qed.

Lemma item_rec_over x : item_rec (it_over x) = None.
Proof. destruct x as [a m [id|id|id| |id]|id [|]]; reflexivity. Qed.

Lemma item_rec_done x : item_rec (it_done x) = None.
Proof. destruct x as [a m [id|id|id| |id]|id [|]]; reflexivity. Qed.

Lemma item_rec_release x id : holds x id = true -> item_rec (it_release x) = Some (id, Pubrel id).
Proof.
  unfold holds. destruct x as [a m [i|i|i| |i]|i [|]]; cbn [item_rec it_release]; intros H; try discriminate H;
    apply N.eqb_eq in H; subst; reflexivity.
Qed.

Lemma lg_live_put l id a m :
  lg_live (lg_put l id (LMsg a m (LStored id))) = store_put (lg_live l) id (Publish false m id).
Proof.
  unfold lg_put. apply lg_live_upd_put; [|reflexivity].
  intros x _. unfold lg_live. cbn [flat_map]. rewrite item_rec_over. reflexivity.
Qed.

Lemma lg_live_rel l id : lg_live (lg_rel l id) = store_put (lg_live l) id (Pubrel id).
Proof.
  unfold lg_rel. apply lg_live_upd_put; [|reflexivity].
  intros x Hx. unfold lg_live. cbn [flat_map]. rewrite (item_rec_release _ _ Hx). reflexivity.
Qed.

Lemma lg_live_del l id : lg_live (lg_del l id) = store_delete (lg_live l) id.
Proof.
  unfold lg_del. apply lg_live_upd_del.
  intros x _. unfold lg_live. cbn [flat_map]. rewrite item_rec_done. reflexivity.
Qed.

Lemma lg_live_filter l : lg_live (filter is_live l) = lg_live l.
Proof.
  induction l as [|x l IH]; cbn [filter]; [reflexivity|]. unfold is_live at 1.
  destruct (item_rec x) as [r|] eqn:E; rewrite ?lg_live_cons, ?E, IH; reflexivity.
Qed.

Lemma lg_live_in l i p : In (i, p) (lg_live l) -> get_id p = Some i /\ undup p = p.
Proof.
  unfold lg_live. rewrite in_flat_map. intros (x & _ & Hx).
  destruct (item_rec x) as [[j q]|] eqn:E; cbn [opt_list In] in Hx; [|contradiction].
  destruct Hx as [Hx|[]]. injection Hx as -> ->. eapply item_rec_id. exact E.
Qed.

(* ------------------------------------------------------------ the relation *)

(* a packet the processor has still to re-send is in the store (possibly flagged dup) *)
Definition resend_ok (st : store) (p : packet) : Prop :=
  exists id p', get_id p = Some id /\ store_lookup st id = Some p' /\ undup p' = undup p.

Definition R_hand (d : dpc) (gd : option N) (h : list (N * lhand)) : Prop :=
  match d with
  | DNextId m _ => exists g a, gd = Some g /\ h = [(g, LH a m None)]
  | DSave p _ => exists g a m id, gd = Some g /\ p = Publish false m id /\ h = [(g, LH a m (Some id))]
  | _ => h = []
  end.
Definition R_last (x : ppc) (gp : option N) (l : list (N * packet)) : Prop :=
  match x with
  | PAckDel id => exists g, gp = Some g /\ (aget l g = Some (Puback id) \/ aget l g = Some (Pubcomp id))
  | PRecSave id => exists g, gp = Some g /\ aget l g = Some (Pubrec id)
  | _ => True
  end.
Definition R_resend (x : ppc) (st : store) : Prop :=
  match x with PResend ps => Forall (resend_ok st) ps | _ => True end.
Definition R_die (d : dpc) (gd : option N) (l : list N) : Prop :=
  forall g, In g l -> gd = Some g /\ d = DDieLog KSession.

Record R_lg (s : bc) (t : lg_st) : Prop := MkR {
  R_store : map undup1 (s_out (sess s)) = lg_live (lg_log t);
  R_nodup : NoDup (keys (s_out (sess s)));
  R_h : R_hand (dp s) (gdeq s) (lg_hand t);
  R_l : R_last (pp s) (gproc s) (lg_last t);
  R_rs : R_resend (pp s) (s_out (sess s));
  R_d : R_die (dp s) (gdeq s) (lg_die t);
  R_o : lg_open t = conn_open s }.

Ltac lsimpl :=
  bcsimpl;
  cbn [sess_with sess_store s_out s_in s_counter lg_log lg_arch lg_hand lg_last lg_die lg_open lg_n
       lg_commit lg_reset lg_with_hand lg_tick R_last R_resend R_hand] in *.

Lemma R_tick s t : R_lg s t -> R_lg s (lg_tick t).
Proof. intros [H1 H2 H3 H4 H5 H6 H7]. constructor; assumption. Qed.

(* everything in the store can be re-sent *)
Lemma resend_ok_all st l : map undup1 st = lg_live l -> NoDup (keys st) -> Forall (resend_ok st) (store_all st).
Proof.
  intros Hst Hnd. unfold store_all. apply Forall_forall. intros p Hp. apply in_map_iff in Hp as ([i q] & <- & Hin).
  cbn [snd]. exists i, q. split; [|split; [apply lookup_in; assumption|reflexivity]].
  assert (Hin' : In (i, undup q) (lg_live l)).
  { rewrite <- Hst. change (i, undup q) with (undup1 (i, q)). apply in_map. exact Hin. }
  apply lg_live_in in Hin' as [Hid _]. rewrite get_id_undup in Hid. exact Hid.
Qed.

(* re-sending a stored packet flags the stored object and changes nothing else *)
Lemma resend_keeps st p : resend_ok st p -> map undup1 (store_save st (set_dup p)) = map undup1 st.
Proof.
  intros (id & p' & Hid & Hl & Hu). rewrite map_undup1_save, undup_set_dup. unfold store_save.
  rewrite get_id_undup, Hid. apply store_put_same. rewrite lookup_undup1, Hl. cbn [option_map]. rewrite Hu. reflexivity.
Qed.

Lemma get_id_set_dup p : get_id (set_dup p) = get_id p.
Proof. destruct p; reflexivity. Qed.

Lemma resend_ok_after st p q : resend_ok st p -> resend_ok st q -> resend_ok (store_save st (set_dup p)) q.
Proof.
  intros (i & p' & Hi & Hl & Hu) (j & q' & Hj & Hlq & Huq). unfold store_save. rewrite get_id_set_dup, Hi.
  exists j. rewrite lookup_put. destruct (N.eqb_spec j i) as [->|Hne].
  - exists (set_dup p). split; [exact Hj|split; [reflexivity|]]. rewrite undup_set_dup.
    rewrite Hl in Hlq. injection Hlq as <-. rewrite <- Hu. exact Huq.
  - exists q'. split; [exact Hj|split; assumption].
Qed.

Lemma aput_single {A} g (v w : A) : aput [(g, v)] g w = [(g, w)].
Proof. unfold aput. cbn [filter fst]. rewrite N.eqb_refl. reflexivity. Qed.

Lemma adel_single {A} g (v : A) : adel [(g, v)] g = [].
Proof. unfold adel. cbn [filter fst]. rewrite N.eqb_refl. reflexivity. Qed.

Lemma aget_single {A} g (v : A) : aget [(g, v)] g = Some v.
Proof. cbn [aget]. rewrite N.eqb_refl. reflexivity. Qed.

Lemma R_die_filter d gd l g : R_die d gd l -> R_die d gd (filter (fun x => negb (x =? g)) l).
Proof. intros H g0 Hg0. apply filter_In in Hg0 as [Hg0 _]. apply H. exact Hg0. Qed.

(* a dequeuer that is not about to report a session error owes nothing *)
Lemma R_die_nil d gd l : R_die d gd l -> d <> DDieLog KSession -> l = [].
Proof. intros H Hd. destruct l as [|g l]; [reflexivity|]. exfalso. apply Hd. apply (H g). left. reflexivity. Qed.

Lemma R_die_other d d' gd l : R_die d gd l -> d <> DDieLog KSession -> R_die d' gd l.
Proof. intros H Hd. rewrite (R_die_nil _ _ _ H Hd). intros g []. Qed.

(* --------------------------------------------------------------- processor *)

Ltac lg_split HR :=
  let H1 := fresh "H1" in let H2 := fresh "H2" in let H3 := fresh "H3" in let H4 := fresh "H4" in
  let H5 := fresh "H5" in let H6 := fresh "H6" in let H7 := fresh "H7" in
  destruct HR as [H1 H2 H3 H4 H5 H6 H7]; constructor; unfold conn_open in *; lsimpl;
  try assumption; try exact I.

Lemma lg_proc s t e s' g : INV s -> R_lg s t -> ev_g e = Some g -> gproc s = Some g -> step_proc s e = Some s' ->
  exists t', lg_act false t e = Some t' /\ R_lg s' t'.
Proof.
  intros HI HR Hg Hr H. pose proof (I_pre _ HI) as Hpre. unfold step_proc, proc_dispatch, die_p, guard in H.
  inv_step H; inv_helpers; injection H as <-; subst; cbn [pre_loop] in Hpre; cbn [ev_g] in Hg; try injection Hg as ->.
  all: try (cbn [lg_act]; eexists; split; [reflexivity|]; lg_split HR; fail).
  - (* Setup *)
    cbn [lg_act]. eexists; split; [reflexivity|]. destruct fresh; lg_split HR.
    + reflexivity.
    + constructor.
  - (* All: the listing is the ledger's *)
    match goal with Hl : list_eqb packet_eqb _ _ = true |- _ =>
      apply (ConnProofsD0.list_eqb_eq _ ConnProofsD0.packet_eqb_eq) in Hl; subst l end.
    cbn [lg_act]. unfold lg_listing. rewrite <- (R_store _ _ HR), all_undup1.
    rewrite (ConnProofsD0.list_eqb_refl _ ConnProofsD0.packet_eqb_refl).
    eexists; split; [reflexivity|].
    pose proof (resend_ok_all _ _ (R_store _ _ HR) (R_nodup _ _ HR)) as Hall.
    destruct (store_all (s_out (sess s))); lg_split HR.
  - (* Resend ok *)
    cbn [lg_act]. eexists; split; [reflexivity|].
    assert (Hp : resend_ok (s_out (sess s)) p /\ Forall (resend_ok (s_out (sess s))) l).
    { pose proof (R_rs _ _ HR) as Hrs. match goal with Hx : pp s = _ |- _ => rewrite Hx in Hrs end. cbn [R_resend] in Hrs.
      inversion Hrs; subst. split; assumption. }
    destruct Hp as [Hp Hl].
    unfold take_deq_if_any, take_deq. destruct (0 <? tdeq s); destruct l; lg_split HR;
      try (rewrite resend_keeps by exact Hp; assumption); try (apply nodup_save; assumption).
    all: apply Forall_forall; intros q Hq; apply resend_ok_after; [exact Hp|];
      rewrite Forall_forall in Hl; apply Hl; exact Hq.
  - (* Resend fail *)
    cbn [lg_act]. eexists; split; [reflexivity|].
    assert (Hp : resend_ok (s_out (sess s)) p).
    { pose proof (R_rs _ _ HR) as Hrs. match goal with Hx : pp s = _ |- _ => rewrite Hx in Hrs end. cbn [R_resend] in Hrs. inversion Hrs; subst. assumption. }
    unfold take_deq_if_any, take_deq. destruct (0 <? tdeq s); lg_split HR;
      try (rewrite resend_keeps by exact Hp; assumption); try (apply nodup_save; assumption).
  - (* Restore *)
    cbn [lg_act]. eexists; split; [reflexivity|]. destruct (Hpre eq_refl) as [Hd _].
    lg_split HR.
    + rewrite Hd in H3. exact H3.
    + eapply R_die_other; [exact H6|]. rewrite Hd. discriminate.
  - (* Rx Puback *)
    cbn [lg_act]. eexists; split; [reflexivity|]. lg_split HR.
    exists g. split; [exact Hr|left; apply aget_aput_same].
  - (* Rx Pubrec *)
    cbn [lg_act]. eexists; split; [reflexivity|]. lg_split HR.
    exists g. split; [exact Hr|apply aget_aput_same].
  - (* Rx Pubcomp *)
    cbn [lg_act]. eexists; split; [reflexivity|]. lg_split HR.
    exists g. split; [exact Hr|right; apply aget_aput_same].
  - (* Delete ok *)
    pose proof (R_l _ _ HR) as Hl. match goal with Hx : pp s = _ |- _ => rewrite Hx in Hl end. destruct Hl as (g' & G & A). rewrite Hr in G. injection G as <-.
    match goal with Hq : (_ =? _) = true |- _ => apply N.eqb_eq in Hq; subst end.
    cbn [lg_act]. destruct A as [A|A]; rewrite A, N.eqb_refl; (eexists; split; [reflexivity|]); lg_split HR;
      try (rewrite lg_live_filter, map_undup1_delete, lg_live_del; congruence); try (apply nodup_delete; assumption).
  - (* Delete fail *)
    pose proof (R_l _ _ HR) as Hl. match goal with Hx : pp s = _ |- _ => rewrite Hx in Hl end. destruct Hl as (g' & G & A). rewrite Hr in G. injection G as <-.
    match goal with Hq : (_ =? _) = true |- _ => apply N.eqb_eq in Hq; subst end.
    cbn [lg_act]. destruct A as [A|A]; rewrite A, N.eqb_refl; (eexists; split; [reflexivity|]); lg_split HR.
  - (* RecSave ok *)
    pose proof (R_l _ _ HR) as Hl. match goal with Hx : pp s = _ |- _ => rewrite Hx in Hl end. destruct Hl as (g' & G & A). rewrite Hr in G. injection G as <-.
    match goal with Hq : (_ =? _) = true |- _ => apply N.eqb_eq in Hq; subst end.
    cbn [lg_act]. rewrite A, N.eqb_refl. eexists; split; [reflexivity|]. lg_split HR.
    + unfold store_save. cbn [get_id]. rewrite lg_live_filter, map_undup1_put, lg_live_rel. cbn [undup]. congruence.
    + unfold store_save. cbn [get_id]. apply nodup_put. assumption.
  - (* RecSave fail *)
    pose proof (R_l _ _ HR) as Hl. match goal with Hx : pp s = _ |- _ => rewrite Hx in Hl end. destruct Hl as (g' & G & A). rewrite Hr in G. injection G as <-.
    match goal with Hq : (_ =? _) = true |- _ => apply N.eqb_eq in Hq; subst end.
    cbn [lg_act]. rewrite A, N.eqb_refl. eexists; split; [reflexivity|]. lg_split HR.
  - (* the processor's own session error *)
    cbn [lg_act]. eexists; split; [reflexivity|]. lg_split HR. apply R_die_filter. assumption.
Qed.

(* ---------------------------------------------------------------- dequeuer *)

Lemma lg_deq s t e s' g : INV s -> R_lg s t -> ev_g e = Some g -> gdeq s = Some g -> step_deq s e = Some s' ->
  exists t', lg_act false t e = Some t' /\ R_lg s' t'.
Proof.
  intros HI HR Hg Hr H. pose proof (I_shape _ HI) as Hsh. pose proof (I_pre _ HI) as Hpre.
  pose proof (R_h _ _ HR) as Hh. pose proof (R_d _ _ HR) as Hd.
  assert (Hnr : R_resend (pp s) (s_out (sess s)) -> forall st, R_resend (pp s) st).
  { intros _ st. destruct (pp s) eqn:Ep; try exact I. exfalso. destruct (Hpre eq_refl) as [Hx _].
    unfold step_deq in H. rewrite Hx in H. discriminate H. }
  unfold step_deq, guard in H.
  inv_step H; inv_helpers; injection H as <-; subst; cbn [dp_shape] in Hsh; cbn [ev_g] in Hg; try injection Hg as ->.
  all: try (cbn [lg_act]; eexists; split; [reflexivity|]; lg_split HR;
            try (eapply R_die_other; [eassumption|congruence]); fail).
  - (* DeqRet, QoS 0 *)
    cbn [lg_act]. match goal with Hq : (m_qos m =? 0) = true |- _ => rewrite Hq end.
    eexists; split; [reflexivity|]. destruct backack; lg_split HR;
      try (eapply R_die_other; [eassumption|congruence]); exact Hh.
  - (* DeqRet, QoS 1/2: the message is in g's hand *)
    cbn [R_hand] in Hh.
    cbn [lg_act]. match goal with Hq : (m_qos m =? 0) = false |- _ => rewrite Hq end.
    rewrite Hh. cbn [aget]. eexists; split; [reflexivity|]. lg_split HR.
    + exists g, (lg_n t). split; [exact Hr|reflexivity].
    + eapply R_die_other; [eassumption|congruence].
  - (* NextId *)
    cbn [R_hand] in Hh. destruct Hh as (g' & a & G & Hh). rewrite Hr in G. injection G as <-.
    cbn [lg_act]. rewrite Hh, aget_single, aput_single. cbn [lh_at lh_msg].
    eexists; split; [reflexivity|]. lg_split HR.
    + exists g, a, m, id. repeat split. exact Hr.
    + eapply R_die_other; [eassumption|congruence].
  - (* Save ok: the entry is recorded *)
    cbn [R_hand] in Hh. destruct Hh as (g' & a & m & id & G & -> & Hh). rewrite Hr in G. injection G as <-.
    match goal with Hq : packet_eqb _ _ = true |- _ => apply packet_eqb_publish_l in Hq; subst end.
    cbn [lg_act]. rewrite Hh, aget_single, adel_single. cbn [lh_at lh_msg lh_id negb andb option_eqb].
    rewrite message_eqb_refl, N.eqb_refl. cbn [andb].
    eexists; split; [reflexivity|].
    destruct ba; lg_split HR;
      try (unfold store_save; cbn [get_id]; rewrite lg_live_filter, map_undup1_put, lg_live_put; cbn [undup]; congruence);
      try (unfold store_save; cbn [get_id]; apply nodup_put; assumption);
      try (apply Hnr; assumption);
      try (eapply R_die_other; [eassumption|congruence]).
    all: reflexivity.
  - (* Save failed: the entry is marked, the goroutine owes a session error *)
    cbn [R_hand] in Hh. destruct Hh as (g' & a & m & id & G & -> & Hh). rewrite Hr in G. injection G as <-.
    match goal with Hq : packet_eqb _ _ = true |- _ => apply packet_eqb_publish_l in Hq; subst end.
    cbn [lg_act]. rewrite Hh, aget_single, adel_single. cbn [lh_at lh_msg lh_id negb andb option_eqb].
    rewrite message_eqb_refl, N.eqb_refl. cbn [andb].
    eexists; split; [reflexivity|]. lg_split HR; try reflexivity.
    + intros g0 [<-|Hg0]; [split; [exact Hr|reflexivity]|].
      destruct (Hd g0 Hg0) as [_ Hx]. discriminate Hx.
  - (* Send ok *)
    cbn [lg_act]. eexists; split; [reflexivity|].
    destruct p; try (lg_split HR; try (eapply R_die_other; [eassumption|congruence]); exact Hh).
    destruct (m_qos m =? 0); lg_split HR; try (eapply R_die_other; [eassumption|congruence]); exact Hh.
  - (* the session error is reported *)
    cbn [lg_act]. eexists; split; [reflexivity|]. lg_split HR.
    intros g0 Hg0. apply filter_In in Hg0 as [Hg0 Hne]. destruct (H6 g0 Hg0) as [Hx _].
    rewrite Hr in Hx. injection Hx as ->. rewrite N.eqb_refl in Hne. discriminate Hne.
Qed.

(* ------------------------------------------------------------------ frames *)

Lemma R_same s s' t : same_pd s s' -> conn_open s' = conn_open s -> R_lg s t -> R_lg s' t.
Proof.
  intros [E1 E2 E3 E4 _ _ E5 _ _] Eo [H1 H2 H3 H4 H5 H6 H7].
  constructor; rewrite ?E1, ?E2, ?E3, ?E4, ?E5, ?Eo; assumption.
Qed.

Lemma R_move s s' t t' : same_pd s s' -> R_lg s t ->
  lg_hand t' = lg_hand t -> lg_log t' = lg_log t -> lg_last t' = lg_last t -> lg_die t' = lg_die t ->
  lg_open t' = conn_open s' -> R_lg s' t'.
Proof.
  intros [E1 E2 E3 E4 _ _ E5 _ _] [H1 H2 H3 H4 H5 H6 H7] F1 F2 F3 F4 Eo.
  constructor; rewrite ?E1, ?E2, ?E3, ?E4, ?E5, ?F1, ?F2, ?F3, ?F4; assumption.
Qed.

Lemma R_with_die s t l : R_lg s t -> R_die (dp s) (gdeq s) l ->
  R_lg s (LG (lg_n t) (lg_open t) (lg_hand t) (lg_log t) (lg_arch t) (lg_last t) l).
Proof. intros [H1 H2 H3 H4 H5 H6 H7] Hd. constructor; assumption. Qed.

Lemma hand_stopped s h : deq_can_stop s = true -> R_hand (dp s) (gdeq s) h -> h = [].
Proof. unfold deq_can_stop, R_hand. destruct (dp s); intros Hc HR; try discriminate Hc; exact HR. Qed.

Lemma die_stopped s l : deq_can_stop s = true -> R_die (dp s) (gdeq s) l -> l = [].
Proof.
  intros Hc HR. eapply R_die_nil; [exact HR|]. unfold deq_can_stop in Hc. intros E. rewrite E in Hc. discriminate Hc.
Qed.

Lemma frozen_deq_stop s s' : frozen s s' -> deq_can_stop s = true.
Proof.
  intros Hf. pose proof (fz_stop _ _ Hf) as Hst. unfold all_stopped in Hst.
  apply andb_prop in Hst as [Hst _]. apply andb_prop in Hst as [_ Hd]. exact Hd.
Qed.

Lemma R_frozen s s' t t' : frozen s s' -> R_lg s t ->
  lg_hand t' = lg_hand t -> lg_log t' = lg_log t -> lg_last t' = lg_last t -> lg_die t' = lg_die t ->
  lg_open t' = conn_open s' -> R_lg s' t'.
Proof.
  intros Hf [H1 H2 H3 H4 H5 H6 H7] E1 E2 E3 E4 Eo. pose proof (frozen_deq_stop _ _ Hf) as Hd.
  pose proof (hand_stopped _ _ Hd H3) as Eh. pose proof (die_stopped _ _ Hd H6) as Ed.
  constructor; rewrite ?E1, ?E2, ?E3, ?E4,
    ?(fz_sess _ _ Hf), ?(fz_pp _ _ Hf), ?(fz_dp _ _ Hf), ?(fz_gproc _ _ Hf), ?(fz_gdeq _ _ Hf);
    try assumption; try exact I.
  - rewrite Eh. destruct (dp s); reflexivity.
  - rewrite Ed. intros g [].
Qed.

Lemma R_learned s s1 t : learned s s1 -> R_lg s t -> R_lg s1 t.
Proof.
  intros Hl HR. destruct (learned_role_kept _ _ Hl) as [Kp Kd].
  assert (E : sess s1 = sess s /\ pp s1 = pp s /\ dp s1 = dp s /\ conn_open s1 = conn_open s).
  { destruct Hl as [->|(g & _ & [[_ ->]|[[_ ->]|[[_ ->]|[_ ->]]]])]; repeat split; reflexivity. }
  destruct E as (Es & Ep & Ed & Eo). destruct HR as [H1 H2 H3 H4 H5 H6 H7].
  constructor; rewrite ?Es, ?Ep, ?Ed, ?Eo; try assumption.
  - unfold R_hand in *. destruct (dp s); try exact H3.
    + destruct H3 as (g & a & G & E). exists g, a. split; [apply Kd; exact G|exact E].
    + destruct H3 as (g & a & m & id & G & E). exists g, a, m, id. split; [apply Kd; exact G|exact E].
  - unfold R_last in *. destruct (pp s); try exact H4;
      destruct H4 as (g & G & A); exists g; (split; [apply Kp; exact G|exact A]).
  - intros g Hg. destruct (H6 g Hg) as [G E]. split; [apply Kd; exact G|exact E].
Qed.

Lemma cleanup_open s e s' : step_cleanup s e = Some s' -> e <> EClosed -> conn_open s' = true.
Proof.
  intros H Hne. unfold step_cleanup, guard in H. inv_step H; injection H as <-; try (exfalso; apply Hne; reflexivity);
    unfold conn_open; bcsimpl; try reflexivity;
    repeat match goal with |- context[if ?b then _ else _] => destruct b end; reflexivity.
Qed.

Lemma cleanup_closed s s' : step_cleanup s EClosed = Some s' -> conn_open s' = false.
Proof. intros H. unfold step_cleanup, guard in H. inv_step H; injection H as <-; reflexivity. Qed.

Lemma proc_open s e s' : step_proc s e = Some s' -> conn_open s' = conn_open s.
Proof.
  intros H. unfold step_proc, proc_dispatch, die_p, guard in H. unfold conn_open.
  inv_step H; inv_helpers; injection H as <-; subst; bcsimpl; try reflexivity.
  - destruct fresh; reflexivity.
  - unfold take_deq_if_any, take_deq; destruct (0 <? tdeq s); reflexivity.
  - unfold take_deq_if_any, take_deq; destruct (0 <? tdeq s); reflexivity.
Qed.

(* quiet events *)
Lemma lg_act_clo t e : clo_event e ->
  exists l, lg_act false t e = Some (LG (lg_n t) (lg_open t) (lg_hand t) (lg_log t) (lg_arch t) (lg_last t) l) /\
            (forall g, In g l -> In g (lg_die t)).
Proof.
  destruct t as [n o h lo ar la di]. destruct e; try contradiction; cbn [lg_act lg_n lg_open lg_hand lg_log lg_arch lg_last lg_die].
  - eexists; split; [reflexivity|exact (fun _ x => x)].
  - eexists; split; [reflexivity|exact (fun _ x => x)].
  - eexists; split; [reflexivity|exact (fun _ x => x)].
  - destruct d; [|contradiction]. eexists; split; [reflexivity|exact (fun _ x => x)].
  - destruct k; try contradiction. eexists; split; [reflexivity|]. intros g0 Hg0. apply filter_In in Hg0 as [Hg0 _]. exact Hg0.
Qed.

Lemma lg_act_cl t e : cl_event e -> e <> EClosed -> lg_act false t e = Some t.
Proof.
  intros He Hne. destruct e; try contradiction; try reflexivity.
  destruct k; cbn [cl_event] in He; try contradiction; reflexivity.
Qed.

Lemma R_die_sub d gd l l' : (forall g, In g l' -> In g l) -> R_die d gd l -> R_die d gd l'.
Proof. intros Hs H g Hg. apply H, Hs, Hg. Qed.

(* -------------------------------------------------------------------- step *)

Lemma lg_act_ok s t e s' : INV2 s -> R_lg s t -> step s e = Some s' ->
  exists t', lg_act false t e = Some t' /\ R_lg s' t'.
Proof.
  intros [HI HW] HR H. apply step_inv in H.
  destruct H as [He Ho ->|He Ho ->|He Hq ->|Hc|g s1 Hg Hl Hr Ho Hp|g s1 Hg Hl Hr Ho Hnp Hd
                |g s1 Hg Hl Hr Ho Hnp Hnd Ha|g s1 Hg Hl Hr Ho Hc|He Hc|g He Ho ->].
  - (* ENewConn: nothing is in anybody's hand *)
    subst e. assert (Eh : lg_hand t = []).
    { destruct (W_gone _ HW) as [_ Hd].
      - intros E. unfold conn_open in Ho. rewrite E in Ho. discriminate Ho.
      - pose proof (R_h _ _ HR) as Hh. destruct Hd as [Hd|Hd]; rewrite Hd in Hh; exact Hh. }
    cbn [lg_act]. rewrite Eh. eexists; split; [reflexivity|].
    destruct HR as [H1 H2 H3 H4 H5 H6 H7]. constructor; unfold conn_open; lsimpl; try assumption; try exact I; try reflexivity.
    intros g [].
  - subst e. exists t. split; [reflexivity|exact HR].
  - (* EQuiescent: the dequeuer is inside Dequeue *)
    subst e. assert (Ed : dp s = DWait).
    { unfold quiescent in Hq. repeat (apply andb_prop in Hq as [Hq ?]). destruct (dp s); try discriminate. reflexivity. }
    assert (Ei : lg_idle t = true).
    { unfold lg_idle. pose proof (R_h _ _ HR) as Hh. rewrite Ed in Hh. cbn [R_hand] in Hh. rewrite Hh.
      rewrite (R_die_nil _ _ _ (R_d _ _ HR)); [reflexivity|]. rewrite Ed. discriminate. }
    cbn [lg_act]. rewrite Ei. exists t. split; [reflexivity|exact HR].
  - (* a closure *)
    apply step_clo_sum in Hc as (He & Hs & El & _). destruct (lg_act_clo t e He) as (l & Ea & Hsub).
    eexists; split; [exact Ea|]. apply R_with_die.
    + eapply R_same; [exact Hs|unfold conn_open; rewrite El; reflexivity|exact HR].
    + rewrite (sp_dp _ _ Hs), (sp_gdeq _ _ Hs). eapply R_die_sub; [exact Hsub|apply (R_d _ _ HR)].
  - (* the processor *)
    destruct (lg_proc s1 t e s' g (INV_learned _ _ Hl HI) (R_learned _ _ _ Hl HR) Hg Hr Hp) as (t' & Ht & HR').
    exists t'. split; assumption.
  - (* the dequeuer *)
    destruct (lg_deq s1 t e s' g (INV_learned _ _ Hl HI) (R_learned _ _ _ Hl HR) Hg Hr Hd) as (t' & Ht & HR').
    exists t'. split; assumption.
  - (* the acker *)
    pose proof (step_ack_sum _ _ _ Ha) as (Hs & El & He).
    exists t. split; [destruct e; try contradiction; try reflexivity; destruct k; try contradiction; reflexivity|].
    eapply R_same; [exact Hs|unfold conn_open; rewrite El; reflexivity|exact (R_learned _ _ _ Hl HR)].
  - (* cleanup with a goroutine: never EClosed *)
    pose proof (R_learned _ _ _ Hl HR) as HR1.
    assert (Hne : e <> EClosed) by (intros ->; discriminate Hg).
    assert (Eo1 : conn_open s1 = true).
    { destruct Hl as [->|(g0 & _ & [[_ ->]|[[_ ->]|[[_ ->]|[_ ->]]]])]; exact Ho. }
    pose proof (cleanup_open _ _ _ Hc Hne) as Eo'.
    apply step_cleanup_sum in Hc as (He & Hc). exists t. split; [apply lg_act_cl; assumption|].
    destruct Hc as [(Hs & _)|Hf].
    + eapply R_same; [exact Hs|congruence|exact HR1].
    + eapply R_frozen; [exact Hf|exact HR1|reflexivity|reflexivity|reflexivity|reflexivity|].
      rewrite (R_o _ _ HR1). congruence.
  - (* EClosed *)
    subst e. pose proof (cleanup_closed _ _ Hc) as Eo'.
    assert (Hstop : lg_hand t = [] /\ lg_die t = []).
    { assert (Hd : deq_can_stop s = true).
      { unfold step_cleanup, guard in Hc. destruct (lp s) eqn:El; try discriminate Hc.
        - destruct (all_stopped s && negb (phase_geq_connected (ph s))) eqn:Ea; [|discriminate Hc].
          apply andb_prop in Ea as [Ea _]. unfold all_stopped in Ea.
          apply andb_prop in Ea as [Ea _]. apply andb_prop in Ea as [_ Ed]. exact Ed.
        - destruct (W_gone _ HW) as [_ Hd]; [rewrite El; discriminate|].
          unfold deq_can_stop. destruct Hd as [Hd|Hd]; rewrite Hd; reflexivity. }
      split; [exact (hand_stopped _ _ Hd (R_h _ _ HR))|exact (die_stopped _ _ Hd (R_d _ _ HR))]. }
    destruct Hstop as [Eh Ed]. cbn [lg_act]. unfold lg_idle. rewrite Eh, Ed.
    eexists; split; [reflexivity|].
    apply step_cleanup_sum in Hc as (_ & [(Hs & _)|Hf]).
    + eapply R_move; [exact Hs|exact HR| | | | |]; cbn [lg_log lg_arch lg_hand lg_last lg_die lg_open]; try reflexivity.
      * symmetry. exact Eh.
      * symmetry. exact Ed.
      * symmetry. exact Eo'.
    + eapply R_frozen; [exact Hf|exact HR| | | | |]; cbn [lg_log lg_arch lg_hand lg_last lg_die lg_open]; try reflexivity.
      * symmetry. exact Eh.
      * symmetry. exact Ed.
      * symmetry. exact Eo'.
  - (* Close() from outside *)
    subst e. exists t. split; [reflexivity|]. apply (R_same s); [constructor; reflexivity|reflexivity|exact HR].
Qed.

Lemma lg_step_ok s t e s' : INV2 s -> R_lg s t -> step s e = Some s' ->
  exists t', lg_step false t e = Some t' /\ R_lg s' t'.
Proof.
  intros HI HR H. destruct (lg_act_ok _ _ _ _ HI HR H) as (t' & Ht & HR').
  exists (lg_tick t'). unfold lg_step. rewrite Ht. split; [reflexivity|apply R_tick; exact HR'].
Qed.

Lemma R_lg_init : R_lg bc_init lg_init.
Proof. constructor; cbn; try reflexivity; try exact I; [constructor|intros g []]. Qed.

Theorem c08_ledger_holds : forall es s, bc_run es = Some s -> c08_ledger es = true.
Proof.
  unfold c08_ledger.
  apply (scan_sound_inv (lg_step false) INV2 R_lg INV2_init INV2_step lg_step_ok). exact R_lg_init.
Qed.

(* the scanner state reached at the end of an accepted trace is related to the model state *)
Section RunRel.
  Context {S : Type}.
  Variable f : S -> event -> option S.
  Variable I : bc -> Prop.
  Variable R : bc -> S -> Prop.
  Hypothesis HIstep : forall s e s', I s -> step s e = Some s' -> I s'.
  Hypothesis Hstep : forall s t e s', I s -> R s t -> step s e = Some s' -> exists t', f t e = Some t' /\ R s' t'.
  Lemma srun_rel_from : forall es s t s', I s -> R s t -> Lts.run step s es = Some s' ->
    exists t', srun f t es = Some t' /\ R s' t' /\ I s'.
  Proof.
    induction es as [|e es IH]; intros s t s' Hi HR Hrun; cbn [Lts.run] in Hrun.
    - injection Hrun as <-. exists t. split; [reflexivity|split; assumption].
    - destruct (step s e) as [s1|] eqn:E; [|discriminate Hrun].
      destruct (Hstep s t e s1 Hi HR E) as (t1 & Ef & HR1). cbn [srun]. rewrite Ef.
      eapply IH; [eapply HIstep; eassumption|exact HR1|exact Hrun].
  Qed.
End RunRel.

Theorem ledger_of_run : forall es s, bc_run es = Some s ->
  exists t, ledger_of es = Some t /\ R_lg s t /\ INV2 s.
Proof.
  intros es s Hrun. unfold ledger_of.
  exact (srun_rel_from (lg_step false) INV2 R_lg INV2_step lg_step_ok es bc_init lg_init s INV2_init R_lg_init Hrun).
Qed.

Print Assumptions c08_ledger_holds.
