(* ConnProofsA_inv.v — invariants of the broker-connection model BC alone
   (every state reached by an accepted trace satisfies them).  They do not
   mention the role fields. *)
From Coq Require Import List NArith Bool Lia.
From GM Require Import Base.Lts Codec.Packet Session.Ids Session.Store
  Broker.Conn Broker.ConnSpec Broker.ConnBase Broker.ConnProofsA_lib.
Import ListNotations.
Open Scope N_scope.

(* ============================================================== inv_phase *)

(* control points of the processor before authentication has succeeded *)
Definition pre_pp (p : ppc) : bool :=
  match p with PFirst | PAuth _ | PDeny | PDieLog _ | PDieClose | PDone => true | _ => false end.
(* ... that are passed only before authentication *)
Definition early_pp (p : ppc) : bool :=
  match p with PFirst | PAuth _ | PDeny => true | _ => false end.
(* the processor is on its way out or gone *)
Definition dead_pp (p : ppc) : bool :=
  match p with PDieLog _ | PDieClose | PDone => true | _ => false end.

(* While the client has not passed authentication (Client.state = connecting) the
   processor is before Setup, the dequeuer and the acker have not been started,
   there is no will, and cleanup can only close.  Conversely the control points
   PFirst, PAuth, PDeny are only occupied in that phase. *)
Definition inv_phase (s : bc) : Prop :=
  (ph s = Connecting ->
     pre_pp (pp s) = true /\ dp s = DOff /\ ap s = AOff /\ will s = None /\ (lp s = LNone \/ lp s = LEnd))
  /\ (early_pp (pp s) = true -> ph s = Connecting)
  /\ (forall c, pp s = PSetup c -> ph s = Connected).

Lemma inv_phase_init : inv_phase bc_init.
Proof. unfold inv_phase; cbn. split; [intros _; repeat split; auto|split; [discriminate|intros c; discriminate]]. Qed.

Ltac unfold_proc H :=
  unfold step_proc, proc_dispatch, die_p, guard, clo_reg, take_sub, take_pub, take_deq_if_any, take_deq in H.

Lemma inv_phase_step s e s' : inv_phase s -> step s e = Some s' -> inv_phase s'.
Proof.
  apply sweep; clear s e s'.
  - intros s p d a c H. exact H.
  - intros s _ _. unfold inv_phase; sf. split; [intros _; repeat split; auto|split; [reflexivity|intros c; discriminate]].
  - intros s H. exact H.
  - intros s e s' H Hc. destruct (step_clo_shape _ _ _ Hc) as (se & cl & dy & q & ->). exact H.
  - intros s e s' (H1 & H2 & H3) Hp. unfold inv_phase. unfold_proc Hp.
    destruct (pp s) eqn:Epp; destruct e; try discriminate Hp; bm Hp; inv_some Hp; sf;
      (split; [intros Hc; try discriminate Hc | split; [intros He; try discriminate He|intros c0 He; try discriminate He]]);
      cbn [early_pp pre_pp] in *;
      try (specialize (H2 eq_refl));
      try (destruct (H1 Hc) as (Hx & ? & ? & ? & ?); try discriminate Hx);
      try (repeat split; solve [assumption | reflexivity]);
      try congruence;
      try (eapply H3; reflexivity).
  - intros s e s' (H1 & H2 & H3) Hd. destruct (step_deq_shape _ _ _ Hd) as (se & d & dy & t1 & t2 & t3 & ->).
    unfold inv_phase; sf. split; [intros Hc|split; [exact H2|exact H3]].
    destruct (H1 Hc) as (_ & Hx & _). unfold step_deq in Hd. rewrite Hx in Hd. discriminate Hd.
  - intros s e s' (H1 & H2 & H3) Ha. destruct (step_ack_shape _ _ _ Ha) as (a & dy & t1 & t2 & t3 & q & ->).
    unfold inv_phase; sf. split; [intros Hc|split; [exact H2|exact H3]].
    destruct (H1 Hc) as (_ & _ & Hx & _). unfold step_ack in Ha. rewrite Hx in Ha. discriminate Ha.
  - intros s e s' (H1 & H2 & H3) Hl. destruct (step_cleanup_shape _ _ _ Hl) as (p & d & a & l & -> & Hsh).
    unfold inv_phase; sf. destruct Hsh as [(-> & -> & -> & Hn)|(Hn & Hst & -> & -> & ->)].
    + split; [intros Hc|split; [exact H2|exact H3]]. destruct (H1 Hc) as (? & ? & ? & ? & [Hx|Hx]); [contradiction|].
      unfold step_cleanup in Hl. rewrite Hx in Hl. discriminate Hl.
    + split; [intros Hc|split; [discriminate|intros c; discriminate]]. destruct (H1 Hc) as (? & Hd & Ha & ? & _).
      rewrite Hd, Ha. repeat split; auto.
      unfold step_cleanup in Hl. rewrite Hn, Hst, Hc in Hl. cbn in Hl.
      destruct e; try discriminate Hl; bm Hl; inv_some Hl; sf; auto.
Qed.

Theorem inv_phase_all es s : bc_run es = Some s -> inv_phase s.
Proof. apply bc_invariant; [exact inv_phase_init|exact inv_phase_step]. Qed.

(* ============================================================= inv_frozen *)

(* once cleanup has begun the three goroutines have returned *)
Definition inv_frozen (s : bc) : Prop :=
  lp s <> LNone -> pp s = PDone /\ (dp s = DOff \/ dp s = DDone) /\ (ap s = AOff \/ ap s = ADone).

Lemma inv_frozen_init : inv_frozen bc_init.
Proof. unfold inv_frozen; cbn. intros _. auto. Qed.

Lemma inv_frozen_step s e s' : inv_frozen s -> step s e = Some s' -> inv_frozen s'.
Proof.
  apply sweep; clear s e s'.
  - intros s p d a c H. exact H.
  - intros s _ _. unfold inv_frozen; sf. intros H; contradiction.
  - intros s H. exact H.
  - intros s e s' H Hc. destruct (step_clo_shape _ _ _ Hc) as (se & cl & dy & q & ->). exact H.
  - intros s e s' H Hp. destruct (step_proc_frame _ _ _ Hp) as (_ & _ & _ & _ & _ & Hl).
    unfold inv_frozen. rewrite Hl. intros Hn. destruct (H Hn) as (Hx & _).
    unfold step_proc in Hp. rewrite Hx in Hp. discriminate Hp.
  - intros s e s' H Hd. destruct (step_deq_shape _ _ _ Hd) as (se & d & dy & t1 & t2 & t3 & ->).
    unfold inv_frozen; sf. intros Hn. destruct (H Hn) as (_ & [Hx|Hx] & _);
      unfold step_deq in Hd; rewrite Hx in Hd; discriminate Hd.
  - intros s e s' H Ha. destruct (step_ack_shape _ _ _ Ha) as (a & dy & t1 & t2 & t3 & q & ->).
    unfold inv_frozen; sf. intros Hn. destruct (H Hn) as (_ & _ & [Hx|Hx]);
      unfold step_ack in Ha; rewrite Hx in Ha; discriminate Ha.
  - intros s e s' H Hl. destruct (step_cleanup_shape _ _ _ Hl) as (p & d & a & l & -> & Hsh).
    unfold inv_frozen; sf. intros _. destruct Hsh as [(-> & -> & -> & Hn)|(Hn & Hst & -> & -> & ->)].
    + apply H, Hn.
    + split; [reflexivity|]. split; [destruct (dp s); auto|destruct (ap s); auto].
Qed.

Theorem inv_frozen_all es s : bc_run es = Some s -> inv_frozen s.
Proof. apply bc_invariant; [exact inv_frozen_init|exact inv_frozen_step]. Qed.

(* ============================================================== inv_store *)

Definition out_ok (p : packet) : bool := match p with Publish _ _ _ | Pubrel _ => true | _ => false end.
Definition is_publish (p : packet) : bool := match p with Publish _ _ _ => true | _ => false end.

Definition all_ok (P : packet -> bool) (ps : list packet) : Prop := Forall (fun p => P p = true) ps.

Lemma store_put_ok P st i p : all_ok P (store_all st) -> P p = true -> all_ok P (store_all (store_put st i p)).
Proof.
  unfold all_ok, store_all. induction st as [|[j q] st IH]; cbn [store_put map snd]; intros H Hp.
  - constructor; [exact Hp|constructor].
  - inversion H as [|x l Hq Hl]; subst. destruct (i =? j); cbn [map snd]; constructor; auto.
Qed.

Lemma store_save_ok P st p : all_ok P (store_all st) -> P p = true -> all_ok P (store_all (store_save st p)).
Proof. unfold store_save. intros H Hp. destruct (get_id p); [apply store_put_ok; assumption|exact H]. Qed.

Lemma store_delete_ok P st i : all_ok P (store_all st) -> all_ok P (store_all (store_delete st i)).
Proof.
  unfold all_ok, store_all. induction st as [|[j q] st IH]; cbn [store_delete map snd]; intros H; [exact H|].
  inversion H as [|x l Hq Hl]; subst. destruct (i =? j); cbn [map snd]; [exact Hl|constructor; auto].
Qed.

Lemma is_publish_out_ok p : is_publish p = true -> out_ok p = true.
Proof. destruct p; cbn; intros H; try discriminate H; reflexivity. Qed.

Lemma out_ok_set_dup p : out_ok p = true -> out_ok (set_dup p) = true.
Proof. destruct p; cbn; intros H; try discriminate H; reflexivity. Qed.

Lemma ack_packet_is_ack k : is_ack_packet (ack_packet k) = true.
Proof. destruct k; reflexivity. Qed.

Lemma ackq_take_in q p q' : ackq_take q p = Some q' -> In p q.
Proof.
  revert q'; induction q as [|x q IH]; cbn [ackq_take]; intros q' H; [discriminate H|].
  destruct (packet_eqb x p) eqn:E.
  - apply packet_eqb_eq in E. left; exact E.
  - destruct (ackq_take q p) as [r|] eqn:Er; [|discriminate H]. right. eapply IH; reflexivity.
Qed.

Lemma ackq_take_ok P q p q' : ackq_take q p = Some q' -> all_ok P q -> all_ok P q'.
Proof.
  unfold all_ok. revert q'; induction q as [|x q IH]; cbn [ackq_take]; intros q' H Hq; [discriminate H|].
  inversion Hq as [|y l Hx Hl]; subst.
  destruct (packet_eqb x p); [injection H as <-; exact Hl|].
  destruct (ackq_take q p) as [r|] eqn:Er; [|discriminate H]. injection H as <-. constructor; [exact Hx|].
  apply IH; [reflexivity|exact Hl].
Qed.

Definition pp_ok (p : ppc) : Prop :=
  match p with
  | PResend ps => all_ok out_ok ps
  | PPub2W p => is_publish p = true
  | _ => True
  end.
Definition dp_ok (d : dpc) : Prop :=
  match d with
  | DSave p _ | DBackAck p | DSend p => is_publish p = true
  | _ => True
  end.

(* The outgoing store holds only PUBLISH and PUBREL packets, the incoming store only
   PUBLISH packets; the packets the processor re-sends come from the outgoing
   store; the dequeuer only ever handles PUBLISH packets; the ack queue holds only
   SUBACK/UNSUBACK/PUBACK/PUBCOMP packets. *)
Definition inv_store (s : bc) : Prop :=
  all_ok out_ok (store_all (s_out (sess s))) /\
  all_ok is_publish (store_all (s_in (sess s))) /\
  pp_ok (pp s) /\ dp_ok (dp s) /\ all_ok is_ack_packet (ackq s).

Lemma inv_store_init : inv_store bc_init.
Proof. unfold inv_store, all_ok; cbn. repeat split; constructor. Qed.

Lemma all_ok_nil P : all_ok P []. Proof. constructor. Qed.
Lemma all_ok_app P a b : all_ok P a -> all_ok P b -> all_ok P (a ++ b).
Proof. unfold all_ok. intros. apply Forall_app; split; assumption. Qed.
Lemma all_ok_tail P x l : all_ok P (x :: l) -> all_ok P l.
Proof. unfold all_ok. intros H. inversion H; assumption. Qed.
Lemma all_ok_head P x l : all_ok P (x :: l) -> P x = true.
Proof. unfold all_ok. intros H. inversion H; assumption. Qed.

Ltac store_tac :=
  cbn [s_in s_out sess_with sess_store session_new] in *;
  repeat match goal with
  | |- _ /\ _ => split
  | |- True => exact I
  | |- all_ok _ [] => apply all_ok_nil
  | |- all_ok _ (store_all []) => apply all_ok_nil
  | |- all_ok _ [_] => apply Forall_cons; [|apply Forall_nil]
  | |- all_ok _ (store_all (store_save _ _)) => apply store_save_ok
  | |- all_ok _ (store_all (store_delete _ _)) => apply store_delete_ok
  | |- all_ok _ (_ ++ _) => apply all_ok_app
  | |- is_ack_packet (ack_packet _) = true => apply ack_packet_is_ack
  | |- out_ok (set_dup _) = true => apply out_ok_set_dup
  | H : all_ok ?P (?x :: ?l) |- all_ok ?P ?l => exact (all_ok_tail _ _ _ H)
  | H : all_ok ?P (?x :: ?l) |- ?P ?x = true => exact (all_ok_head _ _ _ H)
  | H : all_ok ?P (?x :: ?l) |- ?P (_ ?x) = true => pose proof (all_ok_head _ _ _ H)
  | |- _ => assumption
  | |- _ => reflexivity
  end.

Lemma inv_store_step s e s' : inv_store s -> step s e = Some s' -> inv_store s'.
Proof.
  apply sweep; clear s e s'.
  - intros s p d a c H. exact H.
  - intros s (H1 & H2 & _) _. unfold inv_store; sf. repeat split; try assumption; constructor.
  - intros s H. exact H.
  - intros s e s' (H1 & H2 & H3 & H4 & H5) Hc. unfold inv_store. unfold step_clo, guard in Hc.
    destruct e; try discriminate Hc; bm Hc; inv_some Hc; unfold clo_enqueue;
      repeat match goal with |- context [if ?b then _ else _] => destruct b end; sf; store_tac.
  - intros s e s' (H1 & H2 & H3 & H4 & H5) Hp. unfold inv_store. unfold_proc Hp.
    destruct (pp s) eqn:Epp; destruct e; try discriminate Hp; bm Hp; inv_some Hp; sf; cbn [pp_ok] in *;
      store_tac.
    all: try (apply is_publish_out_ok; assumption).
    all: try match goal with Hx : list_eqb packet_eqb _ _ = true |- _ =>
           apply (list_eqb_eq _ packet_eqb_eq) in Hx; try rewrite Hx in *; cbn [store_all map] in *; try assumption end.
    all: try match goal with Hx : packet_eqb _ _ = true |- _ => apply packet_eqb_eq in Hx; subst end.
    all: store_tac.
    all: try match goal with Hx : ?a = ?b |- all_ok _ ?b => rewrite <- Hx; assumption end.
  - intros s e s' (H1 & H2 & H3 & H4 & H5) Hd. unfold inv_store. unfold step_deq, take_deq, guard in Hd.
    destruct (dp s) eqn:Edp; destruct e; try discriminate Hd; bm Hd; inv_some Hd; sf; cbn [dp_ok] in *;
      repeat match goal with |- context [match ?b with _ => _ end] => destruct b end; sf; cbn [dp_ok] in *;
      store_tac.
    all: try (apply is_publish_out_ok; assumption).
  - intros s e s' (H1 & H2 & H3 & H4 & H5) Ha. unfold inv_store. unfold step_ack, guard in Ha.
    destruct (ap s) eqn:Eap; destruct e; try discriminate Ha; bm Ha; inv_some Ha;
      unfold ack_token_back; repeat match goal with |- context [match ?b with _ => _ end] => destruct b end; sf;
      store_tac; eapply ackq_take_ok; eassumption.
  - intros s e s' (H1 & H2 & H3 & H4 & H5) Hl. destruct (step_cleanup_shape _ _ _ Hl) as (p & d & a & l & -> & Hsh).
    unfold inv_store; sf. destruct Hsh as [(-> & -> & -> & Hn)|(Hn & Hst & -> & -> & ->)]; store_tac.
    destruct (dp s); exact I.
Qed.

Theorem inv_store_all es s : bc_run es = Some s -> inv_store s.
Proof. apply bc_invariant; [exact inv_store_init|exact inv_store_step]. Qed.
