(* BaseConnProofs.v — invariants of CN over all event sequences and all carrier
   failure scripts: C19_whole, C19_close_flushes, C19_after_close. *)
From Coq Require Import List NArith Bool Lia ZArith ZifyN ZifyNat ZifyBool.
From Coq.Strings Require Import Byte.
From GM Require Import Codec.Packet Stream.Stream Stream.StreamSpec Stream.StreamProofs
  Stream.EncStream Stream.EncStreamProofs Transport.BaseConn.
Import ListNotations.
Open Scope N_scope.

Lemma log_bytes_cons x l : log_bytes (x :: l) = log_bytes l ++ snd x.
Proof. unfold log_bytes. cbn [rev]. rewrite map_app, concat_app. cbn [map concat]. now rewrite app_nil_r. Qed.

(* encodings are never empty *)
Definition good_ev (ev : cev) : Prop :=
  match ev with CSend _ (Some []) _ => False | _ => True end.

Definition inv (s : cstate) : Prop :=
  let e := c_enc s in
  (e_berr e = None -> c_sent s = c_acc s /\ cn_wire s ++ e_buf e = log_bytes (c_acc s)) /\
  (exists rest, cn_wire s ++ rest = log_bytes (c_sent s)) /\
  (c_sent s = c_acc s \/ exists x, c_sent s = x :: c_acc s) /\
  (c_closed s = true -> e_fail e <> None /\ d_src (c_dec s) = [] /\ d_end (c_dec s) = SErr code_closed) /\
  (e_buf e <> [] -> e_armed e = true \/ e_berr e <> None).

Lemma inv_init d0 wl cs e lim dl dlc cf : inv (cinit d0 wl cs e lim dl dlc cf).
Proof.
  unfold inv, cinit, cn_wire, log_bytes, wire_bytes. cbn.
  split; [intros _; split; reflexivity|]. split; [exists []; reflexivity|]. split; [left; reflexivity|].
  split; [discriminate|]. intros X; contradiction.
Qed.

(* replacing the writer state by one that is related to the old one in the way every
   writer operation that logs nothing is *)
Lemma inv_enc_update s e' :
  inv s ->
  (e_berr e' = None -> e_berr (c_enc s) = None /\
     wire_bytes e' ++ e_buf e' = wire_bytes (c_enc s) ++ e_buf (c_enc s)) ->
  (e_berr (c_enc s) = None -> exists rest, wire_bytes e' ++ rest = wire_bytes (c_enc s) ++ e_buf (c_enc s)) ->
  (e_berr (c_enc s) <> None -> wire_bytes e' = wire_bytes (c_enc s)) ->
  (e_fail (c_enc s) <> None -> e_fail e' <> None) ->
  (e_buf e' <> [] -> e_armed e' = true \/ e_berr e' <> None) ->
  inv (set_enc s e').
Proof.
  intros (I1 & I2 & I3 & I4 & I5) H1 H2 H3 H4 H5.
  unfold inv, cn_wire in *. cbn [set_enc c_enc c_dec c_closed c_sent c_acc].
  split; [|split; [|split; [|split]]].
  - intros B'. destruct (H1 B') as [B E]. destruct (I1 B) as [S W]. split; [exact S|]. rewrite E. exact W.
  - destruct (e_berr (c_enc s)) as [c|] eqn:B.
    + rewrite H3 by discriminate. exact I2.
    + destruct (H2 eq_refl) as [rest E]. destruct (I1 eq_refl) as [S W]. exists rest. rewrite E, S. exact W.
  - exact I3.
  - intros C. destruct (I4 C) as (F & D1 & D2). auto.
  - exact H5.
Qed.

Lemma inv_enc_same s e' :
  inv s ->
  wire_bytes e' = wire_bytes (c_enc s) -> e_buf e' = e_buf (c_enc s) -> e_berr e' = e_berr (c_enc s) ->
  e_armed e' = e_armed (c_enc s) -> (e_fail (c_enc s) <> None -> e_fail e' <> None) ->
  inv (set_enc s e').
Proof.
  intros I W B E A F. apply inv_enc_update; auto.
  - intros X. rewrite E in X. split; [exact X|]. rewrite W, B. reflexivity.
  - intros _. exists (e_buf (c_enc s)). rewrite W. reflexivity.
  - rewrite B, A, E. destruct I as (_ & _ & _ & _ & I5). exact I5.
Qed.

(* carrier.Close keeps the invariant and makes the connection closed *)
Lemma carrier_close_inv s : inv s ->
  let s' := fst (carrier_close s) in
  inv s' /\ c_closed s' = true /\ c_sent s' = c_sent s /\ c_acc s' = c_acc s /\ cn_wire s' = cn_wire s /\
  e_buf (c_enc s') = e_buf (c_enc s) /\ e_berr (c_enc s') = e_berr (c_enc s) /\
  e_aerr (c_enc s') = e_aerr (c_enc s) /\ e_armed (c_enc s') = e_armed (c_enc s) /\
  e_delay0 (c_enc s') = e_delay0 (c_enc s) /\ d_buf (c_dec s') = d_buf (c_dec s).
Proof.
  intros I. unfold carrier_close. destruct (c_closed s) eqn:C; cbn [fst].
  - split; [exact I|]. repeat split; auto.
  - destruct I as (I1 & I2 & I3 & I4 & I5). unfold inv, cn_wire in *.
    cbn [c_enc c_dec c_closed c_sent c_acc set_fail e_buf e_berr e_armed e_aerr e_delay0 e_fail e_wire d_buf d_src d_end].
    change (wire_bytes (set_fail (c_enc s) (Some code_closed))) with (wire_bytes (c_enc s)).
    repeat split; auto; try (apply I1; assumption). discriminate.
Qed.

Lemma pull_nil n buf : pull n buf [] = (buf, []).
Proof. unfold pull. cbn [gather]. destruct (n - len buf =? 0); now rewrite app_nil_r. Qed.

Section CNP.
  Variable detect : list byte -> detection.
  Variable decode : N -> list byte -> option packet.

  (* a Read on a source that delivers nothing more: only the buffer is used *)
  Lemma dec_read_drained lim s :
    d_src s = [] ->
    let r := dec_read detect decode lim s in
    d_src (r_state r) = [] /\ d_end (r_state r) = d_end s /\
    match r_res r with
    | RPacket fr p => d_buf s = fr ++ d_buf (r_state r) /\ fr <> []
    | RFail _ => True
    end.
  Proof.
    intros Hs r.
    assert (G : forall fuel dl buf e,
              let r := dec_detect detect decode fuel lim dl buf [] e in
              d_src (r_state r) = []).
    { induction fuel as [|f IH]; intros dl buf e; cbn [dec_detect]; [reflexivity|].
      rewrite pull_nil. destruct (len buf <? dl); [reflexivity|].
      destruct (detect (takeN dl buf)) as [|total t]; [apply IH|].
      destruct (total =? 0); [apply IH|].
      unfold dec_body. destruct ((0 <? lim) && (lim <? total)); [reflexivity|].
      destruct (type_of_code t); [|reflexivity]. rewrite pull_nil.
      destruct (len buf <? total); [reflexivity|]. destruct (decode t (takeN total buf)); reflexivity. }
    destruct (dec_read_flat detect decode lim s) as [V E].
    split; [unfold r, dec_read; rewrite Hs; apply G|]. split; [exact E|].
    fold r in V. unfold view in V.
    destruct (r_res r) as [fr p|er] eqn:RR; [|exact I].
    symmetry in V. unfold sdec_read in V.
    destruct (sdec_detect_packet detect decode _ _ _ _ _ _ _ _ _ _ V) as (E1 & E2 & _).
    assert (S' : d_src (r_state r) = []) by (unfold r, dec_read; rewrite Hs; apply G).
    unfold flat in E1. rewrite Hs, S' in E1. cbn [concat] in E1. rewrite !app_nil_r in E1.
    split; [exact E1|]. intros ->. apply E2. reflexivity.
  Qed.

  Notation step := (cn_step detect decode).
  Notation run := (cn_run detect decode).

  (* ---------------------------------------------------------------- the invariant *)

  Lemma step_inv s ev s' r : inv s -> good_ev ev -> step s ev = (s', r) -> inv s'.
  Proof.
    intros I G H. destruct ev as [who [bs|] async| | | | |z|]; cbn [cn_step] in H.
    - (* Send *)
      destruct (mw_write (c_enc s) bs (negb async)) as [e' r1] eqn:MW.
      pose proof (mw_write_spec _ _ _ _ _ MW) as (D & M).
      destruct (e_aerr (c_enc s)) as [ca|] eqn:A.
      { (* stored flush error reported *)
        destruct M as [-> ->]. cbn [is_some negb andb] in H. injection H as <- <-.
        apply carrier_close_inv.
        change (CS (set_aerr (c_enc s) None) (c_dec s) (c_closed s) (c_lim s) (c_dlleft s) (c_dlc s) (c_clfail s)
                   (c_sent s) (c_acc s)) with (set_enc s (set_aerr (c_enc s) None)).
        apply inv_enc_same; auto. }
      destruct M as (A' & M). cbn [is_some negb andb] in H.
      destruct (e_berr (c_enc s)) as [cb|] eqn:B.
      { (* dead buffered writer *)
        destruct M as (M0 & M1 & M2 & M3 & M4). cbn [is_some negb] in H.
        assert (Hp : bs <> []) by (destruct bs; [contradiction|discriminate]).
        destruct (M0 (or_introl Hp)) as [-> ->]. injection H as <- <-.
        apply carrier_close_inv. destruct s; exact I. }
      cbn [is_some negb] in H.
      destruct I as (I1 & I2 & I3 & I4 & I5). destruct (I1 B) as [SA WB].
      destruct r1 as [c|].
      + (* a live writer failed *)
        destruct M as (M1 & M2 & M3 & rest & M4). injection H as <- <-.
        apply carrier_close_inv. unfold inv, cn_wire in *. cbn [c_enc c_dec c_closed c_sent c_acc].
        split; [|split; [|split; [|split]]].
        * rewrite M1. discriminate.
        * exists rest. rewrite M4, app_assoc, WB, log_bytes_cons, SA. reflexivity.
        * right. exists (who, bs). rewrite SA. reflexivity.
        * intros C. destruct (I4 C) as (F & D1 & D2). auto.
        * intros _. right. rewrite M1. discriminate.
      + (* accepted *)
        destruct M as (M1 & M2 & M3 & M4 & M5 & M6). injection H as <- <-.
        unfold inv, cn_wire in *. cbn [c_enc c_dec c_closed c_sent c_acc].
        split; [|split; [|split; [|split]]].
        * intros _. split; [rewrite SA; reflexivity|]. rewrite M1, app_assoc, WB, log_bytes_cons. reflexivity.
        * exists (e_buf e'). rewrite M1, app_assoc, WB, log_bytes_cons, SA. reflexivity.
        * left. rewrite SA. reflexivity.
        * intros C. destruct (I4 C) as (F & D1 & D2). split; [|auto].
          destruct (e_fail (c_enc s)) as [cf|] eqn:F0; [|contradiction].
          rewrite (mw_write_fail_sticky _ _ _ _ _ _ F0 MW). discriminate.
        * intros Hb. left. rewrite M3. destruct (e_buf e'); [contradiction|reflexivity].
    - (* Send of an unencodable packet *)
      injection H as <- <-. apply carrier_close_inv. exact I.
    - (* Receive *)
      set (rd := dec_read detect decode (c_lim s) (c_dec s)) in *.
      assert (I1 : inv (set_dec s (r_state rd))).
      { destruct I as (I1 & I2 & I3 & I4 & I5). unfold inv, cn_wire in *.
        cbn [set_dec c_enc c_dec c_closed c_sent c_acc]. repeat split; auto; try (apply I1; assumption);
          destruct (I4 H0) as (F & D1 & D2); auto.
        - destruct (dec_read_drained (c_lim s) (c_dec s) D1) as (X & _). exact X.
        - destruct (dec_read_drained (c_lim s) (c_dec s) D1) as (_ & X & _). fold rd in X. rewrite X. exact D2. }
      destruct (r_res rd) as [fr p|er].
      + destruct (carrier_deadline (set_dec s (r_state rd))) as [s2 [c|]] eqn:DL.
        * injection H as <- <-. apply carrier_close_inv.
          unfold carrier_deadline in DL.
          destruct (c_closed (set_dec s (r_state rd)) && c_dlc (set_dec s (r_state rd))); [injection DL as <-; exact I1|].
          destruct (c_dlleft (set_dec s (r_state rd))) as [[|k]|]; injection DL as <-; try exact I1.
        * injection H as <- <-. unfold carrier_deadline in DL.
          destruct (c_closed (set_dec s (r_state rd)) && c_dlc (set_dec s (r_state rd))); [discriminate|].
          destruct (c_dlleft (set_dec s (r_state rd))) as [[|k]|]; try discriminate; injection DL as <-; exact I1.
      + injection H as <- <-. apply carrier_close_inv. exact I1.
    - (* Close *)
      destruct (mw_write (c_enc s) [] true) as [e' r1] eqn:MW.
      destruct (carrier_close (set_enc s e')) as [s2 r2] eqn:CC. injection H as <- _.
      replace s2 with (fst (carrier_close (set_enc s e'))) by (rewrite CC; reflexivity).
      apply carrier_close_inv.
      pose proof (mw_write_spec _ _ _ _ _ MW) as (D & M).
      destruct (e_aerr (c_enc s)) as [ca|] eqn:A.
      { destruct M as [-> ->]. apply inv_enc_same; auto. }
      destruct M as (A' & M).
      destruct (e_berr (c_enc s)) as [cb|] eqn:B.
      { destruct M as (M0 & M1 & M2 & M3 & M4). destruct (M0 (or_intror (or_introl eq_refl))) as [_ ->].
        destruct s; exact I. }
      destruct r1 as [c|].
      + destruct M as (M1 & M2 & M3 & rest & M4). rewrite app_nil_r in M4.
        apply inv_enc_update; auto.
        * rewrite M1. discriminate.
        * intros _. exists rest. exact M4.
        * rewrite B. intros X; contradiction.
        * intros _. right. rewrite M1. discriminate.
      + destruct M as (M1 & M2 & M3 & M4 & M5 & M6). rewrite app_nil_r in M1.
        apply inv_enc_update; auto.
        * intros _. exists (e_buf e'). exact M1.
        * rewrite B. intros X; contradiction.
        * intros F0. destruct (e_fail (c_enc s)) as [cf|] eqn:F1; [|contradiction].
          rewrite (mw_write_fail_sticky _ _ _ _ _ _ F1 MW). discriminate.
        * intros Hb. left. rewrite M3. destruct (e_buf e'); [contradiction|reflexivity].
    - (* Timer *)
      injection H as <- <-. pose proof (mw_timer_spec (c_enc s)) as (D & AR & T).
      apply inv_enc_update; auto.
      + intros B'. destruct (e_berr (c_enc s)) as [cb|] eqn:B.
        * destruct T as (_ & _ & T3 & _). rewrite T3 in B'. discriminate.
        * split; [reflexivity|]. destruct T as [(T1 & T2 & _)|(_ & _ & T3 & _)]; [|contradiction].
          rewrite T1, T2, app_nil_r. reflexivity.
      + intros B. rewrite B in T. destruct T as [(T1 & T2 & _)|(T1 & T2 & _)].
        * exists []. rewrite T1, app_nil_r. reflexivity.
        * exists (e_buf (c_enc s)). rewrite T1. reflexivity.
      + intros B. destruct (e_berr (c_enc s)) as [cb|]; [|contradiction]. destruct T as (T1 & _). exact T1.
      + intros F0. destruct (e_fail (c_enc s)) as [cf|] eqn:F1; [|contradiction].
        rewrite (mw_timer_fail_sticky _ _ F1). discriminate.
      + intros Hb. right. destruct (e_berr (c_enc s)) as [cb|] eqn:B.
        * destruct T as (_ & _ & T3 & _). rewrite T3. discriminate.
        * destruct T as [(_ & T2 & _)|(_ & _ & T3 & _)]; [contradiction|exact T3].
    - (* SetReadTimeout *)
      injection H as <- <-. unfold carrier_deadline.
      destruct (c_closed s && c_dlc s); [exact I|].
      destruct (c_dlleft s) as [[|k]|]; cbn [fst]; exact I.
    - (* SetMaxWriteDelay *)
      injection H as <- <-. apply inv_enc_same; auto.
    - (* the carrier starts refusing writes *)
      injection H as <- <-. destruct (e_fail (c_enc s)) eqn:F; [exact I|].
      apply inv_enc_same; auto; try (intros _; discriminate).
  Qed.

  Theorem run_inv evs : forall s s' rs,
    inv s -> Forall good_ev evs -> run s evs = (s', rs) -> inv s'.
  Proof.
    induction evs as [|ev evs IH]; intros s s' rs I G H; cbn [cn_run] in H.
    - injection H as <- <-. exact I.
    - destruct (step s ev) as [s1 r] eqn:ST. destruct (run s1 evs) as [s2 rs'] eqn:RN.
      injection H as <- <-. inversion G as [|? ? G1 G2]; subst.
      apply (IH s1 s2 rs'); [exact (step_inv _ _ _ _ I G1 ST)|exact G2|exact RN].
  Qed.

  (* ---------------------------------------------------------------- the ghost log is the trace *)

  Fixpoint accepted (evs : list cev) (rs : list cres) : list (N * list byte) :=
    match evs, rs with
    | CSend who (Some bs) _ :: evs', CROk :: rs' => (who, bs) :: accepted evs' rs'
    | _ :: evs', _ :: rs' => accepted evs' rs'
    | _, _ => []
    end.

  Lemma carrier_close_acc s : c_acc (fst (carrier_close s)) = c_acc s.
  Proof. unfold carrier_close. destruct (c_closed s); reflexivity. Qed.

  Lemma carrier_deadline_acc s : c_acc (fst (carrier_deadline s)) = c_acc s.
  Proof.
    unfold carrier_deadline. destruct (c_closed s && c_dlc s); [reflexivity|].
    destruct (c_dlleft s) as [[|k]|]; reflexivity.
  Qed.

  Lemma step_acc s ev s' r : step s ev = (s', r) ->
    c_acc s' = match ev, r with
               | CSend who (Some bs) _, CROk => (who, bs) :: c_acc s
               | _, _ => c_acc s
               end.
  Proof.
    intros H. destruct ev as [who [bs|] async| | | | |z|]; cbn [cn_step] in H.
    - destruct (mw_write (c_enc s) bs (negb async)) as [e' [c|]]; injection H as <- <-;
        [rewrite carrier_close_acc|]; reflexivity.
    - injection H as <- <-. apply carrier_close_acc.
    - destruct (r_res (dec_read detect decode (c_lim s) (c_dec s))) as [fr p|er].
      + destruct (carrier_deadline (set_dec s _)) as [s2 [c|]] eqn:DL; injection H as <- <-.
        * rewrite carrier_close_acc. change s2 with (fst (s2, Some c)). rewrite <- DL, carrier_deadline_acc. reflexivity.
        * change s2 with (fst (s2, @None N)). rewrite <- DL, carrier_deadline_acc. reflexivity.
      + injection H as <- <-. rewrite carrier_close_acc. reflexivity.
    - destruct (mw_write (c_enc s) [] true) as [e' r1]. destruct (carrier_close (set_enc s e')) as [s2 r2] eqn:CC.
      injection H as <- <-. change s2 with (fst (s2, r2)). rewrite <- CC, carrier_close_acc.
      destruct r1; [reflexivity|destruct r2; reflexivity].
    - injection H as <- <-. reflexivity.
    - injection H as <- <-. apply carrier_deadline_acc.
    - injection H as <- <-. reflexivity.
    - injection H as <- <-. destruct (e_fail (c_enc s)); reflexivity.
  Qed.

  (* the accepted-sends log is exactly the Sends that returned nil, in the order of the events *)
  Lemma run_acc evs : forall s s' rs,
    run s evs = (s', rs) -> c_acc s' = rev (accepted evs rs) ++ c_acc s.
  Proof.
    induction evs as [|ev evs IH]; intros s s' rs H; cbn [cn_run] in H.
    - injection H as <- <-. reflexivity.
    - destruct (step s ev) as [s1 r] eqn:ST. destruct (run s1 evs) as [s2 rs'] eqn:RN.
      injection H as <- <-. rewrite (IH _ _ _ RN), (step_acc _ _ _ _ ST).
      destruct ev as [who [bs|] async| | | | |z|]; cbn [accepted]; try reflexivity.
      destruct r; cbn [rev]; try reflexivity. rewrite <- app_assoc. reflexivity.
  Qed.

  (* C19_whole.  For every carrier script and every sequence of events: the bytes on the
     wire are a prefix of the concatenation of the encodings handed to the writer, in the
     order of the Send events (which extends every sender's own order); all of those
     Sends returned nil except possibly the last one, after which the writer is dead.
     So the wire holds whole packets, in order, never interleaved, plus at most the
     beginning of one packet whose Send reported the failure. *)
  Theorem whole d0 wl cs e lim dl dlc cf evs s rs :
    Forall good_ev evs ->
    run (cinit d0 wl cs e lim dl dlc cf) evs = (s, rs) ->
    (exists rest, cn_wire s ++ rest = log_bytes (c_sent s)) /\
    (c_sent s = c_acc s \/ exists x, c_sent s = x :: c_acc s /\ e_berr (c_enc s) <> None) /\
    rev (c_acc s) = accepted evs rs.
  Proof.
    intros G H. pose proof (run_inv _ _ _ _ (inv_init d0 wl cs e lim dl dlc cf) G H) as (I1 & I2 & I3 & _).
    split; [exact I2|]. split.
    - destruct I3 as [E|[x E]]; [left; exact E|]. right. exists x. split; [exact E|].
      intros B. destruct (I1 B) as [SA _]. rewrite SA in E.
      apply (f_equal (@length _)) in E. cbn [length] in E. lia.
    - rewrite (run_acc _ _ _ _ H). cbn [cinit c_acc]. rewrite app_nil_r, rev_involutive. reflexivity.
  Qed.

  (* ---------------------------------------------------------------- Close loses nothing *)

  Theorem close_flushes s s' r :
    inv s -> healthy (c_enc s) -> step s CClose = (s', r) ->
    cn_wire s' = log_bytes (c_acc s') /\ c_acc s' = c_acc s /\ c_sent s' = c_acc s' /\
    e_buf (c_enc s') = [] /\ c_closed s' = true /\
    (c_closed s = false -> c_clfail s = false -> r = CROk).
  Proof.
    intros I (B & A & CF) H. cbn [cn_step] in H.
    destruct (mw_write (c_enc s) [] true) as [e' r1] eqn:MW.
    pose proof (mw_write_spec _ _ _ _ _ MW) as (D & M). rewrite A, B in M. destruct M as (A' & M).
    destruct r1 as [c|]; [exfalso; destruct M as (_ & _ & NC & _); exact (NC CF)|].
    destruct M as (M1 & M2 & M3 & M4 & M5 & M6). rewrite app_nil_r in M1.
    specialize (M4 (or_introl eq_refl)). rewrite M4, app_nil_r in M1.
    destruct (carrier_close (set_enc s e')) as [s2 r2] eqn:CC. injection H as <- <-.
    destruct I as (I1 & _). destruct (I1 B) as [SA WB]. unfold cn_wire in *.
    unfold carrier_close in CC. cbn [set_enc c_closed c_enc c_dec c_lim c_dlleft c_dlc c_clfail c_sent c_acc] in CC.
    destruct (c_closed s) eqn:C; injection CC as <- <-;
      cbn [c_enc c_acc c_sent c_closed set_enc set_fail e_buf];
      change (wire_bytes (set_fail e' (Some code_closed))) with (wire_bytes e');
      rewrite M1, WB; (split; [reflexivity|]); (split; [reflexivity|]); (split; [exact SA|]); (split; [exact M4|]);
      (split; [first [reflexivity|exact C]|]).
    - discriminate.
    - intros _ ->. reflexivity.
  Qed.

  (* sends, timer firings and delay changes on a connection whose carrier never fails *)
  Definition quiet_ev (ev : cev) : Prop :=
    match ev with
    | CSend _ (Some (_ :: _)) _ | CTimer | CDelay _ | CSetTimeout => True
    | _ => False
    end.

  Lemma quiet_step s ev s' r :
    inv s -> healthy (c_enc s) -> c_closed s = false -> quiet_ev ev -> step s ev = (s', r) ->
    healthy (c_enc s') /\ c_closed s' = false /\ (r = CROk \/ r = CRNone) /\ c_clfail s' = c_clfail s.
  Proof.
    intros I Hh C Q H. destruct ev as [who [[|b0 bt]|] async| | | | |z|]; cbn [quiet_ev] in Q; try contradiction;
      cbn [cn_step] in H.
    - destruct (mw_write (c_enc s) (b0 :: bt) (negb async)) as [e' r1] eqn:MW.
      assert (ES : enc_step (c_enc s) (EvWrite (Some (b0 :: bt)) async) = (e', eres_of r1)).
      { cbn [enc_step]. rewrite MW. reflexivity. }
      destruct (healthy_step _ (EvWrite (Some (b0 :: bt)) async) _ _ Hh Logic.I ES) as (H1 & _ & NE & _).
      destruct r1 as [c|]; [exfalso; exact (NE c eq_refl)|]. injection H as <- <-. cbn [c_enc c_closed c_clfail]. auto.
    - injection H as <- <-. cbn [set_enc c_enc c_closed c_clfail].
      assert (ES : enc_step (c_enc s) EvTimer = (mw_timer (c_enc s), ERNone)) by reflexivity.
      destruct (healthy_step _ EvTimer _ _ Hh Logic.I ES) as (H1 & _). auto.
    - injection H as <- <-. unfold carrier_deadline. rewrite C. cbn [andb].
      destruct (c_dlleft s) as [[|k]|]; cbn [fst c_enc c_closed c_clfail]; auto.
    - injection H as <- <-. cbn [set_enc c_enc c_closed c_clfail].
      assert (ES : enc_step (c_enc s) (EvDelay z) = (set_delay0 (c_enc s) z, ERNone)) by reflexivity.
      destruct (healthy_step _ (EvDelay z) _ _ Hh Logic.I ES) as (H1 & _). auto.
  Qed.

  Lemma quiet_good ev : quiet_ev ev -> good_ev ev.
  Proof. destruct ev as [who [[|b0 bt]|] async| | | | |z|]; cbn; auto. Qed.

  Lemma quiet_run evs : forall s s' rs,
    inv s -> healthy (c_enc s) -> c_closed s = false -> Forall quiet_ev evs -> run s evs = (s', rs) ->
    inv s' /\ healthy (c_enc s') /\ c_closed s' = false /\ Forall (fun r => r = CROk \/ r = CRNone) rs /\
    c_clfail s' = c_clfail s.
  Proof.
    induction evs as [|ev evs IH]; intros s s' rs I Hh C Q H; cbn [cn_run] in H.
    - injection H as <- <-. auto.
    - destruct (step s ev) as [s1 r] eqn:ST. destruct (run s1 evs) as [s2 rs'] eqn:RN.
      injection H as <- <-. inversion Q as [|? ? Q1 Q2]; subst.
      destruct (quiet_step _ _ _ _ I Hh C Q1 ST) as (H1 & C1 & R1 & F1).
      pose proof (step_inv _ _ _ _ I (quiet_good _ Q1) ST) as I1.
      destruct (IH _ _ _ I1 H1 C1 Q2 RN) as (I2 & H2 & C2 & R2 & F2).
      split; [exact I2|]. split; [exact H2|]. split; [exact C2|]. split; [constructor; assumption|]. rewrite F2. exact F1.
  Qed.

  Definition sends_of (evs : list cev) : list (list byte) :=
    concat (map (fun ev => match ev with CSend _ (Some bs) _ => [bs] | _ => [] end) evs).

  Lemma accepted_quiet evs : forall rs,
    Forall quiet_ev evs -> length rs = length evs ->
    Forall (fun r => r = CROk \/ r = CRNone) rs ->
    (forall ev r, In (ev, r) (combine evs rs) -> match ev with CSend _ _ _ => r = CROk | _ => True end) ->
    map snd (accepted evs rs) = sends_of evs.
  Proof.
    unfold sends_of.
    induction evs as [|ev evs IH]; intros rs Q L R S; destruct rs as [|r rs]; cbn [length] in L; try discriminate; [reflexivity|].
    inversion Q as [|? ? Q1 Q2]; subst. inversion R as [|? ? R1 R2]; subst.
    assert (S' : forall ev0 r0, In (ev0, r0) (combine evs rs) -> match ev0 with CSend _ _ _ => r0 = CROk | _ => True end).
    { intros ev0 r0 HI. apply S. right. exact HI. }
    specialize (IH rs Q2 (eq_add_S _ _ L) R2 S').
    pose proof (S ev r (or_introl eq_refl)) as S0.
    destruct ev as [who [bs|] async| | | | |z|]; cbn [accepted map concat app quiet_ev] in *; try contradiction;
      try (destruct r; exact IH).
    subst r. cbn [map snd]. f_equal. exact IH.
  Qed.

  Lemma run_length evs : forall s s' rs, run s evs = (s', rs) -> length rs = length evs.
  Proof.
    induction evs as [|ev evs IH]; intros s s' rs H; cbn [cn_run] in H.
    - injection H as <- <-. reflexivity.
    - destruct (step s ev) as [s1 r]. destruct (run s1 evs) as [s2 rs'] eqn:RN. injection H as <- <-.
      cbn [length]. f_equal. exact (IH _ _ _ RN).
  Qed.

  Lemma run_snoc evs ev : forall s0 s rs,
    run s0 (evs ++ [ev]) = (s, rs) ->
    exists s1 rs1 r, run s0 evs = (s1, rs1) /\ step s1 ev = (s, r) /\ rs = rs1 ++ [r].
  Proof.
    induction evs as [|e0 evs IH]; intros s0 s rs H; cbn [app cn_run] in H |- *.
    - destruct (step s0 ev) as [s1 r] eqn:ST. injection H as <- <-. exists s0, [], r. auto.
    - destruct (step s0 e0) as [s1 r1]. destruct (run s1 (evs ++ [ev])) as [s2 rs2] eqn:RN.
      injection H as <- <-. destruct (IH _ _ _ RN) as (sa & rsa & r & E1 & E2 & E3).
      rewrite E1. exists sa, (r1 :: rsa), r. subst rs2. auto.
  Qed.

  (* C19_close_flushes.  No carrier failure: after any mix of flushed and buffered Sends,
     timer firings and delay changes, every Send has returned nil, and once Close returns
     (nil) the wire is exactly the concatenation of everything sent, the last buffered
     packet included, and nothing is left in the buffer. *)
  Theorem close_loses_nothing d0 cs e lim dl dlc evs s rs :
    Forall quiet_ev evs ->
    run (cinit d0 None cs e lim dl dlc false) (evs ++ [CClose]) = (s, rs) ->
    cn_wire s = concat (sends_of evs) /\ e_buf (c_enc s) = [] /\
    Forall (fun r => r = CROk \/ r = CRNone) rs /\ last rs CRNone = CROk.
  Proof.
    intros Q H.
    destruct (run_snoc _ _ _ _ _ H) as (s1 & rs1 & r & RN & ST & ->).
    destruct (quiet_run _ _ _ _ (inv_init _ _ _ _ _ _ _ _) (healthy_init d0) eq_refl Q RN) as (I1 & H1 & C1 & R1 & F1).
    destruct (close_flushes _ _ _ I1 H1 ST) as (W & A & SA & Bf & C & RO).
    specialize (RO C1 F1). subst r.
    split; [|split; [exact Bf|split]].
    - rewrite W, A. unfold log_bytes. f_equal.
      pose proof (run_acc _ _ _ _ RN) as RA. cbn [cinit c_acc] in RA. rewrite app_nil_r in RA.
      rewrite RA, rev_involutive. apply accepted_quiet; auto.
      + exact (run_length _ _ _ _ RN).
      + (* every Send among quiet events returned nil *)
        intros ev r HI. destruct ev; auto.
        assert (X : r = CROk \/ r = CRNone).
        { apply in_combine_r in HI. rewrite Forall_forall in R1. exact (R1 _ HI). }
        destruct X as [X|X]; [exact X|]. exfalso. subst r.
        (* a Send never returns "no result" *)
        clear - RN HI. revert RN HI. generalize (cinit d0 None cs e lim dl dlc false).
        revert rs1. induction evs as [|ev evs IH]; intros rs1 s0 RN HI; cbn [cn_run] in RN.
        * injection RN as <- <-. cbn in HI. contradiction.
        * destruct (step s0 ev) as [sa ra] eqn:ST. destruct (run sa evs) as [sb rsb] eqn:RN2.
          injection RN as <- <-. cbn [combine In] in HI. destruct HI as [HI|HI].
          -- injection HI as -> ->. cbn [cn_step] in ST. destruct bs as [bs|].
             ++ destruct (mw_write (c_enc s0) bs (negb async)) as [e' [c|]]; discriminate ST.
             ++ discriminate ST.
          -- exact (IH _ _ RN2 HI).
    - apply Forall_app. split; [exact R1|constructor; [left; reflexivity|constructor]].
    - rewrite last_last. reflexivity.
  Qed.

  (* ---------------------------------------------------------------- after Close / after an error *)

  (* every error returned by Send or Receive, and every Close, leaves the carrier closed *)
  Theorem errors_close s ev s' r :
    step s ev = (s', r) ->
    match ev, r with
    | CSend _ _ _, CROk => True
    | CSend _ _ _, _ => c_closed s' = true
    | CReceive, CRPacket _ _ => True
    | CReceive, _ => c_closed s' = true
    | CClose, _ => c_closed s' = true
    | _, _ => True
    end.
  Proof.
    assert (CL : forall x, c_closed (fst (carrier_close x)) = true).
    { intros x. unfold carrier_close. destruct (c_closed x) eqn:C; [exact C|reflexivity]. }
    intros H. destruct ev as [who [bs|] async| | | | |z|]; cbn [cn_step] in H; auto.
    - destruct (mw_write (c_enc s) bs (negb async)) as [e' [c|]]; injection H as <- <-; [apply CL|exact I].
    - injection H as <- <-. apply CL.
    - destruct (r_res (dec_read detect decode (c_lim s) (c_dec s))) as [fr p|er].
      + destruct (carrier_deadline (set_dec s _)) as [s2 [c|]]; injection H as <- <-; [apply CL|exact I].
      + injection H as <- <-. apply CL.
    - destruct (mw_write (c_enc s) [] true) as [e' r1]. destruct (carrier_close (set_enc s e')) as [s2 r2] eqn:CC.
      injection H as <- _. change s2 with (fst (s2, r2)). rewrite <- CC. destruct r; apply CL.
  Qed.

  (* (a) on a closed connection a Send that has to flush (sync, or delay 0) fails at once *)
  Theorem after_close_flushed_send s who bs async s' r :
    inv s -> c_closed s = true -> bs <> [] -> async = false \/ e_delay0 (c_enc s) = true ->
    step s (CSend who (Some bs) async) = (s', r) -> r <> CROk.
  Proof.
    intros (_ & _ & _ & I4 & _) C Hb Hf H. destruct (I4 C) as (F & _).
    destruct (e_fail (c_enc s)) as [cf|] eqn:F0; [|contradiction].
    cbn [cn_step] in H. destruct (mw_write (c_enc s) bs (negb async)) as [e' r1] eqn:MW.
    assert (NR : r1 <> None).
    { eapply dead_carrier_flushed_write; [exact F0|exact Hb| |exact MW].
      destruct Hf as [->|X]; [left; reflexivity|right; exact X]. }
    destruct r1 as [c|]; [|contradiction]. injection H as <- <-. discriminate.
  Qed.

  (* (b) if a buffered Send is accepted on a closed connection, its bytes sit in the buffer
     and the flush timer is armed (or the writer is already dead) … *)
  Theorem after_close_buffered_send s who bs async s' :
    inv s -> c_closed s = true -> bs <> [] ->
    step s (CSend who (Some bs) async) = (s', CROk) ->
    c_closed s' = true /\ e_buf (c_enc s') <> [] /\ (e_armed (c_enc s') = true \/ e_berr (c_enc s') <> None).
  Proof.
    intros I C Hb H. pose proof (step_inv _ _ _ _ I (ltac:(destruct bs; [contradiction|exact Logic.I]) : good_ev (CSend who (Some bs) async)) H) as I'.
    destruct I as (_ & _ & _ & I4 & _). destruct (I4 C) as (F & _).
    destruct (e_fail (c_enc s)) as [cf|] eqn:F0; [|contradiction].
    cbn [cn_step] in H. destruct (mw_write (c_enc s) bs (negb async)) as [e' r1] eqn:MW.
    destruct r1 as [c|]; [injection H as _ H; discriminate|]. injection H as <-.
    cbn [c_closed c_enc]. split; [exact C|].
    assert (NB : e_buf e' <> []).
    { unfold mw_write in MW. destruct (e_aerr (c_enc s)); [discriminate|].
      destruct bs as [|b0 bt]; [contradiction|]. cbn [is_nil] in MW.
      destruct (bw_write (c_enc s) (b0 :: bt)) as [s1 [c1|]] eqn:BW; [discriminate|].
      destruct (dead_carrier_bw_write _ _ _ _ F0 BW Hb) as (F1 & B1 & _).
      destruct (negb async || e_delay0 s1).
      - destruct (bw_flush s1) as [s2 [c2|]] eqn:FL; [discriminate|]. exfalso. exact (dead_carrier_flush _ _ _ F1 B1 FL).
      - injection MW as <-. exact B1. }
    split; [exact NB|]. destruct I' as (_ & _ & _ & _ & I5). exact (I5 NB).
  Qed.

  (* … when the timer fires the writer dies … *)
  Theorem after_close_timer s s' r :
    inv s -> c_closed s = true -> e_buf (c_enc s) <> [] -> step s CTimer = (s', r) ->
    e_berr (c_enc s') <> None.
  Proof.
    intros (_ & _ & _ & I4 & _) C Hb H. destruct (I4 C) as (F & _). injection H as <- _.
    cbn [set_enc c_enc]. pose proof (mw_timer_spec (c_enc s)) as (_ & _ & T).
    destruct (e_berr (c_enc s)) as [cb|].
    - destruct T as (_ & _ & T3 & _). rewrite T3. discriminate.
    - destruct T as [(_ & _ & _ & _ & _ & _ & T7)|(_ & _ & T3 & _)]; [exfalso; exact (F (T7 Hb))|exact T3].
  Qed.

  (* … and a dead writer stays dead: every later Send of a packet, and Close, report an error *)
  Theorem dead_writer_forever s ev s' r :
    e_berr (c_enc s) <> None -> good_ev ev -> step s ev = (s', r) ->
    e_berr (c_enc s') <> None /\
    match ev with CSend _ _ _ | CClose => r <> CROk | _ => True end.
  Proof.
    assert (CL : forall x, e_berr (c_enc (fst (carrier_close x))) = e_berr (c_enc x)).
    { intros x. unfold carrier_close. destruct (c_closed x); reflexivity. }
    assert (DL : forall x, e_berr (c_enc (fst (carrier_deadline x))) = e_berr (c_enc x)).
    { intros x. unfold carrier_deadline. destruct (c_closed x && c_dlc x); [reflexivity|].
      destruct (c_dlleft x) as [[|k]|]; reflexivity. }
    intros B G H. destruct (e_berr (c_enc s)) as [cb|] eqn:B0; [clear B|contradiction].
    destruct ev as [who [bs|] async| | | | |z|]; cbn [cn_step] in H.
    - destruct (mw_write (c_enc s) bs (negb async)) as [e' r1] eqn:MW.
      pose proof (mw_write_spec _ _ _ _ _ MW) as (_ & M).
      destruct (e_aerr (c_enc s)) as [ca|].
      + destruct M as [-> ->]. injection H as <- <-. rewrite CL. cbn [c_enc set_aerr e_berr]. rewrite B0.
        split; discriminate.
      + destruct M as (_ & M). rewrite B0 in M. destruct M as (M0 & _ & M2 & _).
        assert (Hp : bs <> []) by (destruct bs; [contradiction|discriminate]).
        destruct (M0 (or_introl Hp)) as [-> ->]. injection H as <- <-. rewrite CL. cbn [c_enc]. rewrite B0.
        split; discriminate.
    - injection H as <- <-. rewrite CL, B0. split; discriminate.
    - destruct (r_res (dec_read detect decode (c_lim s) (c_dec s))) as [fr p|er].
      + destruct (carrier_deadline (set_dec s _)) as [s2 [c|]] eqn:D; injection H as <- <-.
        * rewrite CL. change s2 with (fst (s2, Some c)). rewrite <- D, DL. cbn [set_dec c_enc]. rewrite B0. split; [discriminate|exact I].
        * change s2 with (fst (s2, @None N)). rewrite <- D, DL. cbn [set_dec c_enc]. rewrite B0. split; [discriminate|exact I].
      + injection H as <- <-. rewrite CL. cbn [set_dec c_enc]. rewrite B0. split; [discriminate|exact I].
    - destruct (mw_write (c_enc s) [] true) as [e' r1] eqn:MW.
      pose proof (mw_write_spec _ _ _ _ _ MW) as (_ & M).
      destruct (carrier_close (set_enc s e')) as [s2 r2] eqn:CC. injection H as <- <-.
      change s2 with (fst (s2, r2)). rewrite <- CC, CL. cbn [set_enc c_enc].
      destruct (e_aerr (c_enc s)) as [ca|].
      + destruct M as [-> ->]. cbn [set_aerr e_berr]. rewrite B0. split; discriminate.
      + destruct M as (_ & M). rewrite B0 in M. destruct M as (M0 & _ & M2 & _).
        destruct (M0 (or_intror (or_introl eq_refl))) as [-> ->]. rewrite B0. split; discriminate.
    - injection H as <- <-. cbn [set_enc c_enc]. pose proof (mw_timer_spec (c_enc s)) as (_ & _ & T).
      rewrite B0 in T. destruct T as (_ & _ & T3 & _). rewrite T3. split; [discriminate|exact I].
    - injection H as <- <-. rewrite DL, B0. split; [discriminate|exact I].
    - injection H as <- <-. cbn [set_enc c_enc set_delay0 e_berr]. rewrite B0. split; [discriminate|exact I].
    - injection H as <- <-. destruct (e_fail (c_enc s)); cbn [set_enc c_enc set_fail e_berr]; rewrite B0; split; try discriminate; exact I.
  Qed.

  (* (c) Receive on a closed connection never waits for the carrier: it returns a packet cut
     from the front of the bytes already buffered (the buffer gets strictly shorter), or an
     error; with an empty buffer it is an error *)
  Theorem after_close_receive s s' r :
    inv s -> c_closed s = true -> step s CReceive = (s', r) ->
    c_closed s' = true /\
    match r with
    | CRPacket fr p => d_buf (c_dec s) = fr ++ d_buf (c_dec s') /\ fr <> []
    | CRRecvErr _ | CRErr _ => True
    | _ => False
    end /\
    (d_buf (c_dec s) = [] -> r = CRRecvErr (ESource code_closed)).
  Proof.
    intros I C H. pose proof (step_inv _ CReceive _ _ I Logic.I H) as I'.
    destruct I as (_ & _ & _ & I4 & _). destruct (I4 C) as (_ & D1 & D2).
    assert (CB : forall x, d_buf (c_dec (fst (carrier_close x))) = d_buf (c_dec x) /\ c_closed (fst (carrier_close x)) = true).
    { intros x. unfold carrier_close. destruct (c_closed x) eqn:Cx; auto. }
    assert (DB : forall x, d_buf (c_dec (fst (carrier_deadline x))) = d_buf (c_dec x) /\
                           c_closed (fst (carrier_deadline x)) = c_closed x).
    { intros x. unfold carrier_deadline. destruct (c_closed x && c_dlc x); auto.
      destruct (c_dlleft x) as [[|k]|]; auto. }
    cbn [cn_step] in H.
    pose proof (dec_read_drained (c_lim s) (c_dec s) D1) as (R1 & R2 & R3).
    set (rd := dec_read detect decode (c_lim s) (c_dec s)) in *.
    assert (EMP : d_buf (c_dec s) = [] -> r_res rd = RFail (ESource code_closed)).
    { intros E. unfold rd, dec_read. rewrite E, D1, D2. reflexivity. }
    destruct (r_res rd) as [fr p|er] eqn:RR.
    - destruct (carrier_deadline (set_dec s (r_state rd))) as [s2 [c|]] eqn:DL; injection H as <- <-.
      + destruct (CB s2) as [_ X]. split; [exact X|]. split; [exact I|]. intros E. specialize (EMP E). discriminate.
      + pose proof (DB (set_dec s (r_state rd))) as [X Y]. rewrite DL in X, Y. cbn [fst set_dec c_dec c_closed] in X, Y.
        split; [rewrite Y; exact C|]. split; [rewrite X; exact R3|]. intros E. specialize (EMP E). discriminate.
    - injection H as <- <-. destruct (CB (set_dec s (r_state rd))) as [_ X]. split; [exact X|]. split; [exact I|].
      intros E. specialize (EMP E). injection EMP as ->. reflexivity.
  Qed.
End CNP.
