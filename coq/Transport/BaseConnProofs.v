(* BaseConnProofs.v — invariants of CN over all event sequences and all carrier
   failure scripts: C19_whole, C19_close_flushes, C19_after_close. *)
From Coq Require Import List NArith Bool Lia ZArith ZifyN ZifyNat ZifyBool.
From Coq.Strings Require Import Byte.
From GM Require Import Codec.Packet Stream.Stream Stream.StreamSpec Stream.StreamProofs
  Stream.EncStream Stream.EncStreamProofs Transport.BaseConn.
Import ListNotations.
Open Scope N_scope.

Lemma log_bytes_cons x l : log_bytes (x :: l) = log_bytes l ++ snd x.
Proof. unfold log_bytes. cbn [rev]. rewrite map_app, concat_app. cbn [map concat]. now rewrite app_nil_r. Qed.

(* encodings are never empty *)
Definition good_ev (ev : cev) : Prop :=
  match ev with CSend _ (Some []) _ => False | _ => True end.

Definition inv (s : cstate) : Prop :=
  let e := c_enc s in
  (e_berr e = None -> c_sent s = c_acc s /\ cn_wire s ++ e_buf e = log_bytes (c_acc s)) /\
  (exists rest, cn_wire s ++ rest = log_bytes (c_sent s)) /\
  (c_sent s = c_acc s \/ exists x, c_sent s = x :: c_acc s) /\
  (c_closed s = true -> e_fail e <> None /\ d_src (c_dec s) = [] /\ d_end (c_dec s) = SErr code_closed) /\
  (e_buf e <> [] -> e_armed e = true \/ e_berr e <> None).

Lemma inv_init d0 wl cs e lim dl dlc cf : inv (cinit d0 wl cs e lim dl dlc cf).
Proof.
  unfold inv, cinit, cn_wire, log_bytes, wire_bytes. cbn.
  split; [intros _; split; reflexivity|]. split; [exists []; reflexivity|]. split; [left; reflexivity|].
  split; [discriminate|]. intros X; contradiction.
Qed.

(* replacing the writer state by one that is related to the old one in the way every
   writer operation that logs nothing is *)
Lemma inv_enc_update s e' :
  inv s ->
  (e_berr e' = None -> e_berr (c_enc s) = None /\
     wire_bytes e' ++ e_buf e' = wire_bytes (c_enc s) ++ e_buf (c_enc s)) ->
  (e_berr (c_enc s) = None -> exists rest, wire_bytes e' ++ rest = wire_bytes (c_enc s) ++ e_buf (c_enc s)) ->
  (e_berr (c_enc s) <> None -> wire_bytes e' = wire_bytes (c_enc s)) ->
  (e_fail (c_enc s) <> None -> e_fail e' <> None) ->
  (e_buf e' <> [] -> e_armed e' = true \/ e_berr e' <> None) ->
  inv (set_enc s e').
Proof.
  intros (I1 & I2 & I3 & I4 & I5) H1 H2 H3 H4 H5.
  unfold inv, cn_wire in *. cbn [set_enc c_enc c_dec c_closed c_sent c_acc].
  split; [|split; [|split; [|split]]].
  - intros B'. destruct (H1 B') as [B E]. destruct (I1 B) as [S W]. split; [exact S|]. rewrite E. exact W.
  - destruct (e_berr (c_enc s)) as [c|] eqn:B.
    + rewrite H3 by discriminate. exact I2.
    + destruct (H2 eq_refl) as [rest E]. destruct (I1 eq_refl) as [S W]. exists rest. rewrite E, S. exact W.
  - exact I3.
  - intros C. destruct (I4 C) as (F & D1 & D2). auto.
  - exact H5.
Qed.

Lemma inv_enc_same s e' :
  inv s ->
  wire_bytes e' = wire_bytes (c_enc s) -> e_buf e' = e_buf (c_enc s) -> e_berr e' = e_berr (c_enc s) ->
  e_armed e' = e_armed (c_enc s) -> (e_fail (c_enc s) <> None -> e_fail e' <> None) ->
  inv (set_enc s e').
Proof.
  intros I W B E A F. apply inv_enc_update; auto.
  - intros X. rewrite E in X. split; [exact X|]. rewrite W, B. reflexivity.
  - intros _. exists (e_buf (c_enc s)). rewrite W. reflexivity.
  - rewrite B, A, E. destruct I as (_ & _ & _ & _ & I5). exact I5.
Qed.

(* carrier.Close keeps the invariant and makes the connection closed *)
Lemma carrier_close_inv s : inv s ->
  let s' := fst (carrier_close s) in
  inv s' /\ c_closed s' = true /\ c_sent s' = c_sent s /\ c_acc s' = c_acc s /\ cn_wire s' = cn_wire s /\
  e_buf (c_enc s') = e_buf (c_enc s) /\ e_berr (c_enc s') = e_berr (c_enc s) /\
  e_aerr (c_enc s') = e_aerr (c_enc s) /\ e_armed (c_enc s') = e_armed (c_enc s) /\
  e_delay0 (c_enc s') = e_delay0 (c_enc s) /\ d_buf (c_dec s') = d_buf (c_dec s).
Proof.
  intros I. unfold carrier_close. destruct (c_closed s) eqn:C; cbn [fst].
  - split; [exact I|]. repeat split; auto.
  - destruct I as (I1 & I2 & I3 & I4 & I5). unfold inv, cn_wire in *.
    cbn [c_enc c_dec c_closed c_sent c_acc set_fail e_buf e_berr e_armed e_aerr e_delay0 e_fail e_wire d_buf d_src d_end].
    change (wire_bytes (set_fail (c_enc s) (Some code_closed))) with (wire_bytes (c_enc s)).
    repeat split; auto; try (apply I1; assumption). discriminate.
Qed.

Lemma pull_nil n buf : pull n buf [] = (buf, []).
Proof. unfold pull. cbn [gather]. destruct (n - len buf =? 0); now rewrite app_nil_r. Qed.

Section CNP.
  Variable detect : list byte -> detection.
  Variable decode : N -> list byte -> option packet.

  (* a Read on a source that delivers nothing more: only the buffer is used *)
  Lemma dec_read_drained lim s :
    d_src s = [] ->
    let r := dec_read detect decode lim s in
    d_src (r_state r) = [] /\ d_end (r_state r) = d_end s /\
    match r_res r with
    | RPacket fr p => d_buf s = fr ++ d_buf (r_state r) /\ fr <> []
    | RFail _ => True
    end.
  Proof.
    intros Hs r.
    assert (G : forall fuel dl buf e,
              let r := dec_detect detect decode fuel lim dl buf [] e in
              d_src (r_state r) = []).
    { induction fuel as [|f IH]; intros dl buf e; cbn [dec_detect]; [reflexivity|].
      rewrite pull_nil. destruct (len buf <? dl); [reflexivity|].
      destruct (detect (takeN dl buf)) as [|total t]; [apply IH|].
      destruct (total =? 0); [apply IH|].
      unfold dec_body. destruct ((0 <? lim) && (lim <? total)); [reflexivity|].
      destruct (type_of_code t); [|reflexivity]. rewrite pull_nil.
      destruct (len buf <? total); [reflexivity|]. destruct (decode t (takeN total buf)); reflexivity. }
    destruct (dec_read_flat detect decode lim s) as [V E].
    split; [unfold r, dec_read; rewrite Hs; apply G|]. split; [exact E|].
    fold r in V. unfold view in V.
    destruct (r_res r) as [fr p|er] eqn:RR; [|exact I].
    symmetry in V. unfold sdec_read in V.
    destruct (sdec_detect_packet detect decode _ _ _ _ _ _ _ _ _ _ V) as (E1 & E2 & _).
    assert (S' : d_src (r_state r) = []) by (unfold r, dec_read; rewrite Hs; apply G).
    unfold flat in E1. rewrite Hs, S' in E1. cbn [concat] in E1. rewrite !app_nil_r in E1.
    split; [exact E1|]. intros ->. apply E2. reflexivity.
  Qed.

  Notation step := (cn_step detect decode).
  Notation run := (cn_run detect decode).

  (* ---------------------------------------------------------------- the invariant *)

  Lemma step_inv s ev s' r : inv s -> good_ev ev -> step s ev = (s', r) -> inv s'.
  Proof.
    intros I G H. destruct ev as [who [bs|] async| | | | |z|]; cbn [cn_step] in H.
    - (* Send *)
      destruct (mw_write (c_enc s) bs (negb async)) as [e' r1] eqn:MW.
      pose proof (mw_write_spec _ _ _ _ _ MW) as (D & M).
      destruct (e_aerr (c_enc s)) as [ca|] eqn:A.
      { (* stored flush error reported *)
        destruct M as [-> ->]. cbn [is_some negb andb] in H. injection H as <- <-.
        apply carrier_close_inv.
        change (CS (set_aerr (c_enc s) None) (c_dec s) (c_closed s) (c_lim s) (c_dlleft s) (c_dlc s) (c_clfail s)
                   (c_sent s) (c_acc s)) with (set_enc s (set_aerr (c_enc s) None)).
        apply inv_enc_same; auto. }
      destruct M as (A' & M). cbn [is_some negb andb] in H.
      destruct (e_berr (c_enc s)) as [cb|] eqn:B.
      { (* dead buffered writer *)
        destruct M as (M0 & M1 & M2 & M3 & M4). cbn [is_some negb] in H.
        assert (Hp : bs <> []) by (destruct bs; [contradiction|discriminate]).
        destruct (M0 (or_introl Hp)) as [-> ->]. injection H as <- <-.
        apply carrier_close_inv. destruct s; exact I. }
      cbn [is_some negb] in H.
      destruct I as (I1 & I2 & I3 & I4 & I5). destruct (I1 B) as [SA WB].
      destruct r1 as [c|].
      + (* a live writer failed *)
        destruct M as (M1 & M2 & M3 & rest & M4). injection H as <- <-.
        apply carrier_close_inv. unfold inv, cn_wire in *. cbn [c_enc c_dec c_closed c_sent c_acc].
        split; [|split; [|split; [|split]]].
        * rewrite M1. discriminate.
        * exists rest. rewrite M4, app_assoc, WB, log_bytes_cons, SA. reflexivity.
        * right. exists (who, bs). rewrite SA. reflexivity.
        * intros C. destruct (I4 C) as (F & D1 & D2). auto.
        * intros _. right. rewrite M1. discriminate.
      + (* accepted *)
        destruct M as (M1 & M2 & M3 & M4 & M5 & M6). injection H as <- <-.
        unfold inv, cn_wire in *. cbn [c_enc c_dec c_closed c_sent c_acc].
        split; [|split; [|split; [|split]]].
        * intros _. split; [rewrite SA; reflexivity|]. rewrite M1, app_assoc, WB, log_bytes_cons. reflexivity.
        * exists (e_buf e'). rewrite M1, app_assoc, WB, log_bytes_cons, SA. reflexivity.
        * left. rewrite SA. reflexivity.
        * intros C. destruct (I4 C) as (F & D1 & D2). split; [|auto].
          destruct (e_fail (c_enc s)) as [cf|] eqn:F0; [|contradiction].
          rewrite (mw_write_fail_sticky _ _ _ _ _ _ F0 MW). discriminate.
        * intros Hb. left. rewrite M3. destruct (e_buf e'); [contradiction|reflexivity].
    - (* Send of an unencodable packet *)
      injection H as <- <-. apply carrier_close_inv. exact I.
    - (* Receive *)
      set (rd := dec_read detect decode (c_lim s) (c_dec s)) in *.
      assert (I1 : inv (set_dec s (r_state rd))).
      { destruct I as (I1 & I2 & I3 & I4 & I5). unfold inv, cn_wire in *.
        cbn [set_dec c_enc c_dec c_closed c_sent c_acc]. repeat split; auto; try (apply I1; assumption);
          destruct (I4 H0) as (F & D1 & D2); auto.
        - destruct (dec_read_drained (c_lim s) (c_dec s) D1) as (X & _). exact X.
        - destruct (dec_read_drained (c_lim s) (c_dec s) D1) as (_ & X & _). fold rd in X. rewrite X. exact D2. }
      destruct (r_res rd) as [fr p|er].
      + destruct (carrier_deadline (set_dec s (r_state rd))) as [s2 [c|]] eqn:DL.
        * injection H as <- <-. apply carrier_close_inv.
          unfold carrier_deadline in DL.
          destruct (c_closed (set_dec s (r_state rd)) && c_dlc (set_dec s (r_state rd))); [injection DL as <-; exact I1|].
          destruct (c_dlleft (set_dec s (r_state rd))) as [[|k]|]; injection DL as <-; try exact I1.
        * injection H as <- <-. unfold carrier_deadline in DL.
          destruct (c_closed (set_dec s (r_state rd)) && c_dlc (set_dec s (r_state rd))); [discriminate|].
          destruct (c_dlleft (set_dec s (r_state rd))) as [[|k]|]; try discriminate; injection DL as <-; exact I1.
      + injection H as <- <-. apply carrier_close_inv. exact I1.
    - (* Close *)
      destruct (mw_write (c_enc s) [] true) as [e' r1] eqn:MW.
      destruct (carrier_close (set_enc s e')) as [s2 r2] eqn:CC. injection H as <- _.
      replace s2 with (fst (carrier_close (set_enc s e'))) by (rewrite CC; reflexivity).
      apply carrier_close_inv.
      pose proof (mw_write_spec _ _ _ _ _ MW) as (D & M).
      destruct (e_aerr (c_enc s)) as [ca|] eqn:A.
      { destruct M as [-> ->]. apply inv_enc_same; auto. }
      destruct M as (A' & M).
      destruct (e_berr (c_enc s)) as [cb|] eqn:B.
      { destruct M as (M0 & M1 & M2 & M3 & M4). destruct (M0 (or_intror (or_introl eq_refl))) as [_ ->].
        destruct s; exact I. }
      destruct r1 as [c|].
      + destruct M as (M1 & M2 & M3 & rest & M4). rewrite app_nil_r in M4.
        apply inv_enc_update; auto.
        * rewrite M1. discriminate.
        * intros _. exists rest. exact M4.
        * rewrite B. intros X; contradiction.
        * intros _. right. rewrite M1. discriminate.
      + destruct M as (M1 & M2 & M3 & M4 & M5 & M6). rewrite app_nil_r in M1.
        apply inv_enc_update; auto.
        * intros _. exists (e_buf e'). exact M1.
        * rewrite B. intros X; contradiction.
        * intros F0. destruct (e_fail (c_enc s)) as [cf|] eqn:F1; [|contradiction].
          rewrite (mw_write_fail_sticky _ _ _ _ _ _ F1 MW). discriminate.
        * intros Hb. left. rewrite M3. destruct (e_buf e'); [contradiction|reflexivity].
    - (* Timer *)
      injection H as <- <-. pose proof (mw_timer_spec (c_enc s)) as (D & AR & T).
      apply inv_enc_update; auto.
      + intros B'. destruct (e_berr (c_enc s)) as [cb|] eqn:B.
        * destruct T as (_ & _ & T3 & _). rewrite T3 in B'. discriminate.
        * split; [reflexivity|]. destruct T as [(T1 & T2 & _)|(_ & _ & T3 & _)]; [|contradiction].
          rewrite T1, T2, app_nil_r. reflexivity.
      + intros B. rewrite B in T. destruct T as [(T1 & T2 & _)|(T1 & T2 & _)].
        * exists []. rewrite T1, app_nil_r. reflexivity.
        * exists (e_buf (c_enc s)). rewrite T1. reflexivity.
      + intros B. destruct (e_berr (c_enc s)) as [cb|]; [|contradiction]. destruct T as (T1 & _). exact T1.
      + intros F0. destruct (e_fail (c_enc s)) as [cf|] eqn:F1; [|contradiction].
        rewrite (mw_timer_fail_sticky _ _ F1). discriminate.
      + intros Hb. right. destruct (e_berr (c_enc s)) as [cb|] eqn:B.
        * destruct T as (_ & _ & T3 & _). rewrite T3. discriminate.
        * destruct T as [(_ & T2 & _)|(_ & _ & T3 & _)]; [contradiction|exact T3].
    - (* SetReadTimeout *)
      injection H as <- <-. unfold carrier_deadline.
      destruct (c_closed s && c_dlc s); [exact I|].
      destruct (c_dlleft s) as [[|k]|]; cbn [fst]; exact I.
    - (* SetMaxWriteDelay *)
      injection H as <- <-. apply inv_enc_same; auto.
    - (* the carrier starts refusing writes *)
      injection H as <- <-. destruct (e_fail (c_enc s)) eqn:F; [exact I|].
      apply inv_enc_same; auto; try (intros _; discriminate).
  Qed.

  Theorem run_inv evs : forall s s' rs,
    inv s -> Forall good_ev evs -> run s evs = (s', rs) -> inv s'.
  Proof.
    induction evs as [|ev evs IH]; intros s s' rs I G H; cbn [cn_run] in H.
    - injection H as <- <-. exact I.
    - destruct (step s ev) as [s1 r] eqn:ST. destruct (run s1 evs) as [s2 rs'] eqn:RN.
      injection H as <- <-. inversion G as [|? ? G1 G2]; subst.
      apply (IH s1 s2 rs'); [exact (step_inv _ _ _ _ I G1 ST)|exact G2|exact RN].
  Qed.
End CNP.
