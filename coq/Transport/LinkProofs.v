(* LinkProofs.v — the LINK theorems: the sending side (BaseConn over mercury/bufio over a
   failing carrier, Transport/BaseConnProofs.v + Stream/EncStreamProofs.v) composed with the
   receiving side (the stream decoder over ANY chunking, Stream/FramesProofs.v) through the
   REAL codec (Stream/StreamCodec.v: frames_codec, truncation_codec; Codec: encoder_write_exact,
   roundtrip).  The existing theorems are imported and composed; what is proved here are the
   adapters between their shapes:
     - a link event's bytes are wire_spec p (encoder_write_exact), never empty;
     - the BaseConn ghost logs c_acc / c_sent, read as (goroutine, packet) lists;
     - a prefix of a concatenation of encodings is whole encodings plus a strict prefix of the
       next one (prefix_split);
     - n+1 Receive calls on a BaseConn are dec_all (receives_dec_all).                      *)
From Coq Require Import List NArith Bool Lia ZArith ZifyN ZifyNat ZifyBool.
From Coq.Strings Require Import Byte.
From GM Require Import Codec.Packet Codec.WF Codec.WireSpec.
From GM Require Codec.Enc Codec.EncProofsTop.
From GM Require Import Stream.Stream Stream.StreamSpec Stream.StreamProofs Stream.EncStream Stream.EncStreamProofs
  Stream.FramesProofs Stream.StreamCodec Stream.StreamTotal Transport.BaseConn Transport.BaseConnProofs Transport.Link.
Import ListNotations.
Open Scope N_scope.

Notation stepA := (cn_step detect_impl codec_decode).
Notation runA := (cn_run detect_impl codec_decode).

(* ---------------------------------------------------------------- link events and their bytes *)

(* the real encoder hands exactly wire_spec p to the writer, whatever the pooled buffer held *)
Lemma enc_of_wf prior p : wf p = true -> enc_of prior p = Some (wire_spec p).
Proof. intros W. unfold enc_of. rewrite (EncProofsTop.encoder_write_exact p prior W). reflexivity. Qed.

Lemma wire_spec_cons p : wf p = true -> exists b bs, wire_spec p = b :: bs.
Proof.
  intros W. destruct (codec_detect_enc p W) as (h & H2 & _ & Hl & _).
  destruct (wire_spec p) as [|b bs]; [rewrite len_nil in Hl; lia|eauto].
Qed.

Lemma wire_spec_len_pos p : wf p = true -> 0 < len (wire_spec p).
Proof. intros W. destruct (codec_detect_enc p W) as (h & H2 & _ & Hl & _). lia. Qed.

Lemma lquiet_wf ev : lquiet ev -> lev_wf ev.
Proof. destruct ev; cbn; auto. Qed.

Lemma lquiet_quiet ev : lquiet ev -> quiet_ev (cev_of ev).
Proof.
  destruct ev as [who p prior async| | | | | |]; cbn [lquiet cev_of quiet_ev]; auto.
  intros W. rewrite (enc_of_wf prior p W). destruct (wire_spec_cons p W) as (b & bs & ->). exact I.
Qed.

Lemma lev_wf_good ev : lev_wf ev -> good_ev (cev_of ev).
Proof.
  destruct ev as [who p prior async| | | | | |]; cbn [lev_wf cev_of good_ev]; auto.
  intros W. rewrite (enc_of_wf prior p W). destruct (wire_spec_cons p W) as (b & bs & ->). exact I.
Qed.

Lemma Forall_map_impl {A B} (P : A -> Prop) (Q : B -> Prop) (f : A -> B) l :
  (forall x, P x -> Q (f x)) -> Forall P l -> Forall Q (map f l).
Proof. intros H F. induction F as [|x l Hx F IH]; cbn [map]; constructor; auto. Qed.

Lemma quiet_script script : Forall lquiet script -> Forall quiet_ev (map cev_of script).
Proof. apply Forall_map_impl. exact lquiet_quiet. Qed.

Lemma good_script script : Forall lev_wf script -> Forall good_ev (map cev_of script).
Proof. apply Forall_map_impl. exact lev_wf_good. Qed.

Lemma lquiet_script_wf script : Forall lquiet script -> Forall lev_wf script.
Proof. intros F. eapply Forall_impl; [|exact F]. exact lquiet_wf. Qed.

(* ---------------------------------------------------------------- (goroutine, packet) lists *)

Definition enc_tag (x : N * packet) : N * list byte := (fst x, wire_spec (snd x)).

Lemma offered_app s1 s2 : offered (s1 ++ s2) = offered s1 ++ offered s2.
Proof.
  induction s1 as [|ev s1 IH]; [reflexivity|]. destruct ev; cbn [app offered]; rewrite IH; reflexivity.
Qed.

Lemma offered_wf script : Forall lev_wf script -> Forall wfp (map snd (offered script)).
Proof.
  intros F. induction F as [|ev script W F IH]; [constructor|].
  destruct ev; cbn [offered map snd]; try exact IH. constructor; [exact W|exact IH].
Qed.

Lemma offered_in script x : In x (offered script) -> exists prior async, In (LSend (fst x) (snd x) prior async) script.
Proof.
  induction script as [|ev script IH]; [intros []|].
  destruct ev as [who p prior async| | | | | |]; cbn [offered]; intros H;
    try (destruct (IH H) as (pr & a & HI); exists pr, a; right; exact HI).
  destruct H as [<-|H]; [exists prior, async; left; reflexivity|].
  destruct (IH H) as (pr & a & HI). exists pr, a. right. exact HI.
Qed.

Lemma laccepted_in script : forall rs x, In x (laccepted script rs) -> In x (offered script).
Proof.
  induction script as [|ev script IH]; intros rs x H; [destruct rs; contradiction|].
  destruct rs as [|r rs]; [destruct ev; contradiction|].
  destruct ev as [who p prior async| | | | | |]; cbn [laccepted offered] in *; try exact (IH _ _ H).
  destruct r; cbn [In] in *; try (right; exact (IH _ _ H)).
  destruct H as [H|H]; [left; exact H|right; exact (IH _ _ H)].
Qed.

Lemma Forall_map_in {A B} (P : B -> Prop) (f : A -> B) l1 l2 :
  (forall x, In x l1 -> In x l2) -> Forall P (map f l2) -> Forall P (map f l1).
Proof.
  intros S F. rewrite Forall_forall in *. intros y Hy. apply in_map_iff in Hy. destruct Hy as (x & <- & Hx).
  apply F. apply in_map. apply S. exact Hx.
Qed.

(* the BaseConn trace function `accepted`, read on a link script *)
Lemma accepted_cev_of script : forall rs, Forall lev_wf script ->
  accepted (map cev_of script) rs = map enc_tag (laccepted script rs).
Proof.
  induction script as [|ev script IH]; intros rs F; [destruct rs; reflexivity|].
  inversion F as [|? ? W F']; subst. destruct rs as [|r rs]; [destruct ev; cbn; try reflexivity; destruct (enc_of prior p); reflexivity|].
  destruct ev as [who p prior async| | | | | |]; cbn [map cev_of accepted laccepted]; try exact (IH rs F').
  cbn [lev_wf] in W. rewrite (enc_of_wf prior p W).
  destruct r; cbn [map]; try exact (IH rs F'). rewrite (IH rs F'). reflexivity.
Qed.

Lemma concat_enc_tag l : concat (map snd (map enc_tag l)) = concat (map wire_spec (map snd l)).
Proof. rewrite !map_map. reflexivity. Qed.

Lemma combine_fst_snd {A B} (l : list (A * B)) : combine (map fst l) (map snd l) = l.
Proof. induction l as [|[a b] l IH]; [reflexivity|]. cbn [map combine fst snd]. rewrite IH. reflexivity. Qed.

Lemma buffered_offered script p : In p (buffered script) -> In p (map snd (offered script)).
Proof.
  induction script as [|ev script IH]; [intros []|].
  destruct ev as [who q prior [|]| | | | | |]; cbn [buffered offered map snd In]; auto.
  intros [H|H]; auto.
Qed.

(* ---------------------------------------------------------------- A without carrier failure *)

Lemma run_cons detect decode s ev evs :
  cn_run detect decode s (ev :: evs) =
  let '(s1, r) := cn_step detect decode s ev in
  let '(s2, rs) := cn_run detect decode s1 evs in (s2, r :: rs).
Proof. reflexivity. Qed.

(* a Send returns nil or an error, never "no result" *)
Lemma send_result detect decode s who bs async s' r :
  cn_step detect decode s (CSend who bs async) = (s', r) -> r <> CRNone.
Proof.
  cbn [cn_step]. destruct bs as [bs|]; [|intros H; injection H as <- <-; discriminate].
  destruct (mw_write (c_enc s) bs (negb async)) as [e' [c|]]; intros H; injection H as <- <-; discriminate.
Qed.

(* in a quiet run every Send is accepted *)
Lemma quiet_accepts script : forall s s' rs,
  inv s -> healthy (c_enc s) -> c_closed s = false -> Forall lquiet script ->
  runA s (map cev_of script) = (s', rs) -> laccepted script rs = offered script.
Proof.
  induction script as [|ev script IH]; intros s s' rs I Hh C Q H.
  - cbn in H. injection H as <- <-. reflexivity.
  - cbn [map] in H. rewrite run_cons in H.
    destruct (stepA s (cev_of ev)) as [s1 r] eqn:ST. destruct (runA s1 (map cev_of script)) as [s2 rs'] eqn:RN.
    injection H as <- <-. inversion Q as [|? ? Q1 Q2]; subst.
    pose proof (lquiet_quiet _ Q1) as Q1'.
    destruct (quiet_step _ _ _ _ _ _ I Hh C Q1' ST) as (H1 & C1 & R1 & _).
    pose proof (step_inv _ _ _ _ _ _ I (quiet_good _ Q1') ST) as I1.
    specialize (IH _ _ _ I1 H1 C1 Q2 RN).
    destruct ev as [who p prior async| | | | | |]; cbn [laccepted offered]; try exact IH.
    cbn [cev_of] in ST. destruct R1 as [->| ->]; [rewrite IH; reflexivity|].
    exfalso. exact (send_result _ _ _ _ _ _ _ _ ST eq_refl).
Qed.

(* after any quiet script from a fresh connection: every Send returned nil, nothing failed, and
   wire ++ write buffer is exactly the concatenation of the encodings of the packets sent *)
Lemma quiet_wire d0 csA eA limA dl dlc cf script sA rsA :
  Forall lquiet script ->
  a_run (a_init d0 None csA eA limA dl dlc cf) script = (sA, rsA) ->
  inv sA /\ healthy (c_enc sA) /\ c_closed sA = false /\ c_clfail sA = cf /\
  Forall (fun r => r = CROk \/ r = CRNone) rsA /\
  laccepted script rsA = offered script /\
  cn_wire sA ++ e_buf (c_enc sA) = concat (map wire_spec (map snd (offered script))).
Proof.
  intros Q H. unfold a_run, a_init in H.
  pose proof (inv_init d0 None csA eA limA dl dlc cf) as I0.
  destruct (quiet_run _ _ _ _ _ _ I0 (healthy_init d0) eq_refl (quiet_script _ Q) H) as (I1 & H1 & C1 & R1 & F1).
  pose proof (quiet_accepts _ _ _ _ I0 (healthy_init d0) eq_refl Q H) as A.
  split; [exact I1|]. split; [exact H1|]. split; [exact C1|]. split; [exact F1|]. split; [exact R1|]. split; [exact A|].
  destruct I1 as (J1 & _). destruct H1 as (B & _). destruct (J1 B) as [_ WB]. rewrite WB.
  pose proof (run_acc _ _ _ _ _ _ H) as RA. cbn [cinit c_acc] in RA. rewrite app_nil_r in RA.
  unfold log_bytes. rewrite RA, rev_involutive, (accepted_cev_of _ _ (lquiet_script_wf _ Q)), A.
  apply concat_enc_tag.
Qed.

(* a timer firing or a flushed Send on a healthy open connection leaves the buffer empty *)
Lemma flush_step s ev s' r :
  healthy (c_enc s) -> lquiet ev -> lflushing ev ->
  stepA s (cev_of ev) = (s', r) -> e_buf (c_enc s') = [].
Proof.
  intros Hh Q Fl H. destruct ev as [who p prior [|]| | | | | |]; cbn [lflushing lquiet] in *; try contradiction.
  - cbn [cev_of] in H. rewrite (enc_of_wf prior p Q) in H. cbn [cn_step negb] in H.
    destruct (mw_write (c_enc s) (wire_spec p) true) as [e' r1] eqn:MW.
    assert (ES : enc_step (c_enc s) (EvWrite (Some (wire_spec p)) false) = (e', eres_of r1)).
    { cbn [enc_step negb]. rewrite MW. reflexivity. }
    destruct (healthy_step _ (EvWrite (Some (wire_spec p)) false) _ _ Hh Logic.I ES) as (_ & _ & NE & Z).
    specialize (Z (or_introl eq_refl)).
    destruct r1 as [c|]; [exfalso; exact (NE c eq_refl)|]. injection H as <- <-. exact Z.
  - cbn [cev_of cn_step] in H. injection H as <- <-. cbn [set_enc c_enc].
    assert (ES : enc_step (c_enc s) EvTimer = (mw_timer (c_enc s), ERNone)) by reflexivity.
    destruct (healthy_step _ EvTimer _ _ Hh Logic.I ES) as (_ & _ & _ & Z). exact (Z Logic.I).
Qed.

Lemma cn_wire_chunks s : concat (link_chunks s) = cn_wire s.
Proof. reflexivity. Qed.

(* ---------------------------------------------------------------- B on a whole / truncated stream *)

Lemma snd_frames ps : map snd (map (frame_of wire_spec) ps) = ps.
Proof. rewrite map_map. cbn [frame_of snd]. apply map_id. Qed.

(* frames_codec, for the link's names *)
Lemma b_recv_whole limB ps cs eB :
  Forall wfp ps -> Forall (within limB) ps -> concat cs = concat (map wire_spec ps) ->
  let b := b_recv limB cs eB in
  a_frames b = map (frame_of wire_spec) ps /\ b_packets b = ps /\ a_err b = end_err eB 0 /\
  a_allocs b = map (alloc_of wire_spec) ps.
Proof.
  intros W L E b. destruct (frames_codec limB ps cs eB W L E) as (F1 & F2 & F3). fold (b_recv limB cs eB) in F1, F2, F3.
  fold b in F1, F2, F3. split; [exact F1|]. split; [|split; assumption].
  unfold b_packets. rewrite F1. apply snd_frames.
Qed.

(* a prefix of a concatenation of encodings: all of it, or whole encodings followed by the
   first j bytes (j < its length; j = 0: a packet boundary) of the next one *)
Lemma prefix_split : forall ps, Forall wfp ps -> forall w rest,
  w ++ rest = concat (map wire_spec ps) ->
  w = concat (map wire_spec ps) \/
  exists pre p post j, ps = pre ++ p :: post /\ j < len (wire_spec p) /\
    w = concat (map wire_spec pre) ++ takeN j (wire_spec p).
Proof.
  induction ps as [|p ps IH]; intros W w rest E.
  - cbn [map concat] in E. apply app_eq_nil in E. destruct E as [-> _]. left. reflexivity.
  - inversion W as [|? ? W1 W2]; subst. cbn [map concat] in E.
    destruct (app_eq_app _ _ _ _ E) as (l & [[E1 E2]|[E1 E2]]).
    + (* w covers the whole first encoding *)
      destruct (IH W2 l rest (eq_sym E2)) as [F|(pre & q & post & j & P1 & P2 & P3)].
      * left. cbn [map concat]. rewrite E1, F. reflexivity.
      * right. exists (p :: pre), q, post, j. split; [rewrite P1; reflexivity|]. split; [exact P2|].
        cbn [map concat]. rewrite E1, P3, app_assoc. reflexivity.
    + destruct l as [|x l].
      * (* exactly the first encoding *)
        rewrite app_nil_r in E1. cbn [app] in E2.
        destruct (IH W2 [] rest E2) as [F|(pre & q & post & j & P1 & P2 & P3)].
        -- left. cbn [map concat]. rewrite <- F, app_nil_r. symmetry. exact E1.
        -- right. exists (p :: pre), q, post, j. split; [rewrite P1; reflexivity|]. split; [exact P2|].
           cbn [map concat]. rewrite <- app_assoc, <- P3, app_nil_r. symmetry. exact E1.
      * (* a strict prefix of the first encoding *)
        right. exists [], p, ps, (len w). split; [reflexivity|]. split.
        -- rewrite E1, len_app, len_cons. lia.
        -- cbn [map concat app]. rewrite E1. symmetry. apply takeN_exact_app.
Qed.

(* B on any prefix of a concatenation of encodings: a prefix of the packets, then the end of
   the source seen j bytes into the next packet *)
Lemma b_recv_prefix limB ps cs eB rest :
  Forall wfp ps -> Forall (within limB) ps -> concat cs ++ rest = concat (map wire_spec ps) ->
  let b := b_recv limB cs eB in
  exists lost j,
    b_packets b ++ lost = ps /\
    a_frames b = map (frame_of wire_spec) (b_packets b) /\
    a_err b = end_err eB j /\
    match lost with
    | [] => j = 0 /\ concat cs = concat (map wire_spec (b_packets b))
    | p :: _ => j < len (wire_spec p) /\
                concat cs = concat (map wire_spec (b_packets b)) ++ takeN j (wire_spec p)
    end.
Proof.
  intros W L E b. destruct (prefix_split ps W _ _ E) as [F|(pre & p & post & j & P1 & P2 & P3)].
  - destruct (b_recv_whole limB ps cs eB W L F) as (F1 & F2 & F3 & _). fold b in F1, F2, F3.
    exists [], 0. rewrite F2, app_nil_r. repeat split; auto.
  - subst ps. apply Forall_app in W. destruct W as [Wa Wb]. inversion Wb as [|? ? Wp _]; subst.
    apply Forall_app in L. destruct L as [La Lb]. inversion Lb as [|? ? Lp _]; subst.
    destruct (truncation_codec limB pre p j cs eB (Forall_cons _ Wp Wa) (Forall_cons _ Lp La) P2 P3) as [T1 T2].
    fold (b_recv limB cs eB) in T1, T2. fold b in T1, T2.
    assert (BP : b_packets b = pre) by (unfold b_packets; rewrite T1; apply snd_frames).
    exists (p :: post), j. rewrite BP. repeat split; auto.
Qed.

(* ---------------------------------------------------------------- link_delivers *)

(* THE LINK THEOREM.  A fresh connection A whose carrier does not fail; any interleaving of
   buffered and flushed Sends of well-formed packets by any goroutines, timer firings, delay
   and timeout changes, ended by a Close, a timer firing or a flushed Send.  Then every Send
   (and the Close) returned nil, and for EVERY re-chunking cs of what A's carrier accepted,
   followed by the end of the stream, B's decoder — the real DetectPacket / Decode, limit not
   exceeded — returns exactly the packets sent, each with exactly its encoding as byte range,
   in the order of the Send events, one allocation request of the packet's size each, and
   then a clean end (EOF for io.EOF). *)
Theorem link_delivers :
  forall d0 csA eA limA dl dlc script last sA rsA cs limB eB,
    Forall lquiet script -> lflushing last ->
    Forall (within limB) (map snd (offered (script ++ [last]))) ->
    a_run (a_init d0 None csA eA limA dl dlc false) (script ++ [last]) = (sA, rsA) ->
    rechunk cs (link_chunks sA) ->
    let ps := map snd (offered (script ++ [last])) in
    let b := b_recv limB cs eB in
    Forall (fun r => r = CROk \/ r = CRNone) rsA /\
    laccepted (script ++ [last]) rsA = offered (script ++ [last]) /\
    e_buf (c_enc sA) = [] /\
    a_frames b = map (frame_of wire_spec) ps /\
    b_packets b = ps /\
    a_err b = end_err eB 0 /\ (eB = SEof -> a_err b = EEof) /\
    a_allocs b = map (alloc_of wire_spec) ps.
Proof.
  intros d0 csA eA limA dl dlc script last sA rsA cs limB eB Q Fl L H RC ps b.
  unfold rechunk in RC. rewrite cn_wire_chunks in RC.
  assert (G : Forall (fun r => r = CROk \/ r = CRNone) rsA /\
              laccepted (script ++ [last]) rsA = offered (script ++ [last]) /\
              e_buf (c_enc sA) = [] /\ cn_wire sA = concat (map wire_spec ps)).
  { destruct last as [who p prior [|]| | | | | |]; cbn [lflushing] in Fl; try contradiction.
    - (* a flushed Send *)
      assert (Q' : Forall lquiet (script ++ [LSend who p prior false])).
      { apply Forall_app. split; [exact Q|]. constructor; [exact Fl|constructor]. }
      destruct (quiet_wire _ _ _ _ _ _ _ _ _ _ Q' H) as (_ & _ & _ & _ & R & A & WB).
      unfold a_run, a_init in H. rewrite map_app in H. cbn [map] in H.
      destruct (run_snoc _ _ _ _ _ _ _ H) as (s1 & rs1 & r & RN & ST & _).
      destruct (quiet_wire d0 csA eA limA dl dlc false script s1 rs1 Q RN) as (_ & H1 & _).
      pose proof (flush_step s1 (LSend who p prior false) sA r H1 Fl Fl ST) as Z.
      rewrite Z, app_nil_r in WB. auto.
    - (* a timer firing *)
      assert (Q' : Forall lquiet (script ++ [LTimer])).
      { apply Forall_app. split; [exact Q|]. constructor; [exact Logic.I|constructor]. }
      destruct (quiet_wire _ _ _ _ _ _ _ _ _ _ Q' H) as (_ & _ & _ & _ & R & A & WB).
      unfold a_run, a_init in H. rewrite map_app in H. cbn [map] in H.
      destruct (run_snoc _ _ _ _ _ _ _ H) as (s1 & rs1 & r & RN & ST & _).
      destruct (quiet_wire d0 csA eA limA dl dlc false script s1 rs1 Q RN) as (_ & H1 & _).
      pose proof (flush_step s1 LTimer sA r H1 Logic.I Logic.I ST) as Z.
      rewrite Z, app_nil_r in WB. auto.
    - (* Close: C19_close_loses_nothing *)
      pose proof H as H'. unfold a_run, a_init in H'. rewrite map_app in H'. cbn [map cev_of] in H'.
      destruct (close_loses_nothing _ _ _ _ _ _ _ _ _ _ _ (quiet_script _ Q) H') as (W & Bf & R & _).
      destruct (run_snoc _ _ _ _ _ _ _ H') as (s1 & rs1 & r & RN & ST & ->).
      destruct (quiet_wire d0 csA eA limA dl dlc false script s1 rs1 Q RN) as (I1 & H1 & _ & _ & _ & A1 & WB1).
      assert (A : laccepted (script ++ [LClose]) (rs1 ++ [r]) = offered (script ++ [LClose])).
      { rewrite offered_app. cbn [offered]. rewrite app_nil_r, <- A1.
        pose proof (run_length _ _ _ _ _ _ RN) as LN. rewrite map_length in LN.
        clear - LN. revert rs1 LN. induction script as [|ev script IH]; intros [|r1 rs1] LN; cbn [length] in LN; try discriminate.
        - reflexivity.
        - injection LN as LN. destruct ev; cbn [app laccepted]; try (apply IH; exact LN).
          destruct r1; try (apply IH; exact LN). rewrite (IH _ LN). reflexivity. }
      split; [exact R|]. split; [exact A|]. split; [exact Bf|].
      (* the wire after Close is the wire plus buffer before it *)
      destruct (close_flushes _ _ _ _ _ I1 H1 ST) as (W2 & A2 & _).
      rewrite W2, A2. destruct I1 as (J1 & _). destruct H1 as (B & _). destruct (J1 B) as [_ WB]. rewrite <- WB, WB1.
      unfold ps. rewrite offered_app. cbn [offered]. rewrite app_nil_r. reflexivity. }
  destruct G as (R & A & Bf & W).
  assert (Wf : Forall wfp ps).
  { apply offered_wf. apply Forall_app. split; [exact (lquiet_script_wf _ Q)|]. constructor; [|constructor].
    destruct last as [who p prior [|]| | | | | |]; cbn [lflushing lev_wf] in *; auto. }
  rewrite W in RC.
  destruct (b_recv_whole limB ps cs eB Wf L RC) as (F1 & F2 & F3 & F4). fold b in F1, F2, F3, F4.
  repeat split; auto. intros ->. exact F3.
Qed.

(* the packets of one sender goroutine arrive in the order that goroutine sent them: label
   the i-th packet B received with the goroutine of the i-th Send event; then for every
   goroutine g, the packets labelled g are exactly the packets g sent, in g's own order *)
Theorem link_per_sender_order :
  forall d0 csA eA limA dl dlc script last sA rsA cs limB eB,
    Forall lquiet script -> lflushing last ->
    Forall (within limB) (map snd (offered (script ++ [last]))) ->
    a_run (a_init d0 None csA eA limA dl dlc false) (script ++ [last]) = (sA, rsA) ->
    rechunk cs (link_chunks sA) ->
    let received := b_packets (b_recv limB cs eB) in
    let senders := map fst (offered (script ++ [last])) in
    length received = length senders /\
    forall g, map snd (filter (fun x => fst x =? g) (combine senders received)) = sent_by g (script ++ [last]).
Proof.
  intros d0 csA eA limA dl dlc script last sA rsA cs limB eB Q Fl L H RC received senders.
  destruct (link_delivers _ _ _ _ _ _ _ _ _ _ _ _ eB Q Fl L H RC) as (_ & _ & _ & _ & BP & _).
  unfold received, senders. rewrite BP. split; [rewrite !map_length; reflexivity|].
  intros g. rewrite combine_fst_snd. reflexivity.
Qed.

(* ---------------------------------------------------------------- Close loses nothing, end to end *)

(* everything accepted by Sends — buffered ones included — before a Close on a connection whose
   carrier has not failed reaches B, whole and in order, before B sees the end of the stream;
   Close returns nil.  (C19_close_loses_nothing composed with C03_frames_codec.) *)
Theorem link_close_loses_nothing :
  forall d0 csA eA limA dl dlc script sA rsA cs limB eB,
    Forall lquiet script ->
    Forall (within limB) (map snd (offered script)) ->
    a_run (a_init d0 None csA eA limA dl dlc false) (script ++ [LClose]) = (sA, rsA) ->
    rechunk cs (link_chunks sA) ->
    let b := b_recv limB cs eB in
    last rsA CRNone = CROk /\
    b_packets b = map snd (offered script) /\
    (forall p, In p (buffered script) -> In p (b_packets b)) /\
    a_err b = end_err eB 0 /\ (eB = SEof -> a_err b = EEof).
Proof.
  intros d0 csA eA limA dl dlc script sA rsA cs limB eB Q L H RC b.
  pose proof H as H'. unfold a_run, a_init in H'. rewrite map_app in H'. cbn [map cev_of] in H'.
  destruct (close_loses_nothing _ _ _ _ _ _ _ _ _ _ _ (quiet_script _ Q) H') as (_ & _ & _ & LR).
  assert (L' : Forall (within limB) (map snd (offered (script ++ [LClose])))).
  { rewrite offered_app. cbn [offered]. rewrite app_nil_r. exact L. }
  destruct (link_delivers _ _ _ _ _ _ _ LClose _ _ _ _ eB Q Logic.I L' H RC) as (_ & _ & _ & _ & BP & E1 & E2 & _).
  fold b in BP, E1, E2. rewrite offered_app in BP. cbn [offered] in BP. rewrite app_nil_r in BP.
  split; [exact LR|]. split; [exact BP|]. split; [|split; assumption].
  intros p HI. rewrite BP. apply buffered_offered. exact HI.
Qed.

Lemma laccepted_wf script rs : Forall lev_wf script -> Forall wfp (map snd (laccepted script rs)).
Proof.
  intros F. apply (Forall_map_in wfp snd _ (offered script)); [apply laccepted_in|apply offered_wf; exact F].
Qed.

Lemma laccepted_within limB script rs :
  Forall (within limB) (map snd (offered script)) -> Forall (within limB) (map snd (laccepted script rs)).
Proof. apply Forall_map_in. apply laccepted_in. Qed.

(* the same from ANY history — Sends of any kind, A's own Receives, timeouts, timer firings —
   as long as A's carrier has not failed when Close is called (C19_close_flushes composed):
   B receives exactly the packets whose Send returned nil, in order, then a clean end *)
Theorem link_close_flushes :
  forall d0 wl csA eA limA dl dlc cf script s1 rs1 sA r cs limB eB,
    Forall lev_wf script ->
    Forall (within limB) (map snd (offered script)) ->
    a_run (a_init d0 wl csA eA limA dl dlc cf) script = (s1, rs1) ->
    healthy (c_enc s1) ->
    stepA s1 CClose = (sA, r) ->
    rechunk cs (link_chunks sA) ->
    let b := b_recv limB cs eB in
    b_packets b = map snd (laccepted script rs1) /\
    a_frames b = map (frame_of wire_spec) (map snd (laccepted script rs1)) /\
    a_err b = end_err eB 0 /\
    (c_clfail s1 = false -> r = CROk).
Proof.
  intros d0 wl csA eA limA dl dlc cf script s1 rs1 sA r cs limB eB W L H Hh ST RC b.
  unfold a_run, a_init in H.
  pose proof (run_inv _ _ _ _ _ _ (inv_init d0 wl csA eA limA dl dlc cf) (good_script _ W) H) as I1.
  destruct (close_flushes _ _ _ _ _ I1 Hh ST) as (W2 & A2 & _ & _ & _ & RO).
  pose proof (run_acc _ _ _ _ _ _ H) as RA. cbn [cinit c_acc] in RA. rewrite app_nil_r in RA.
  unfold rechunk in RC. rewrite cn_wire_chunks, W2, A2 in RC. unfold log_bytes in RC.
  rewrite RA, rev_involutive, (accepted_cev_of _ _ W), concat_enc_tag in RC.
  destruct (b_recv_whole limB _ cs eB (laccepted_wf script rs1 W) (laccepted_within limB script rs1 L) RC)
    as (F1 & F2 & F3 & _). fold b in F1, F2, F3.
  split; [exact F2|]. split; [exact F1|]. split; [exact F3|].
  intros CF. apply RO; [|exact CF].
  destruct I1 as (_ & _ & _ & I4 & _). destruct (c_closed s1) eqn:C; [|reflexivity].
  destruct (I4 eq_refl) as (F & _). destruct Hh as (_ & _ & F0 & _). contradiction.
Qed.

(* ---------------------------------------------------------------- A with carrier failures *)

Lemma carrier_close_sent s : c_sent (fst (carrier_close s)) = c_sent s.
Proof. unfold carrier_close. destruct (c_closed s); reflexivity. Qed.

Lemma carrier_deadline_sent s : c_sent (fst (carrier_deadline s)) = c_sent s.
Proof.
  unfold carrier_deadline. destruct (c_closed s && c_dlc s); [reflexivity|].
  destruct (c_dlleft s) as [[|k]|]; reflexivity.
Qed.

(* only a Send adds to the log of encodings handed to the writer, and it adds its own *)
Lemma step_sent detect decode s ev s' r : cn_step detect decode s ev = (s', r) ->
  c_sent s' = c_sent s \/
  exists who bs async, ev = CSend who (Some bs) async /\ c_sent s' = (who, bs) :: c_sent s.
Proof.
  intros H. destruct ev as [who [bs|] async| | | | |z|]; cbn [cn_step] in H.
  - destruct (mw_write (c_enc s) bs (negb async)) as [e' [c|]];
      destruct (negb (is_some (e_aerr (c_enc s))) && negb (is_some (e_berr (c_enc s)))); injection H as <- <-;
      rewrite ?carrier_close_sent; cbn [c_sent]; first [left; reflexivity|right; exists who, bs, async; split; reflexivity].
  - injection H as <- <-. left. apply carrier_close_sent.
  - left. destruct (r_res (dec_read detect decode (c_lim s) (c_dec s))) as [fr p|er].
    + destruct (carrier_deadline (set_dec s _)) as [s2 [c|]] eqn:DL; injection H as <- <-.
      * rewrite carrier_close_sent. change s2 with (fst (s2, Some c)). rewrite <- DL, carrier_deadline_sent. reflexivity.
      * change s2 with (fst (s2, @None N)). rewrite <- DL, carrier_deadline_sent. reflexivity.
    + injection H as <- <-. rewrite carrier_close_sent. reflexivity.
  - left. destruct (mw_write (c_enc s) [] true) as [e' r1]. destruct (carrier_close (set_enc s e')) as [s2 r2] eqn:CC.
    injection H as <- <-. change s2 with (fst (s2, r2)). rewrite <- CC, carrier_close_sent. reflexivity.
  - injection H as <- <-. left. reflexivity.
  - injection H as <- <-. left. apply carrier_deadline_sent.
  - injection H as <- <-. left. reflexivity.
  - injection H as <- <-. left. destruct (e_fail (c_enc s)); reflexivity.
Qed.

(* every entry of the sent log is the encoding of a well-formed packet some Send event of the
   script offered, with that event's goroutine *)
Lemma run_sent (P : N * list byte -> Prop) script : forall s s' rs,
  Forall lev_wf script ->
  (forall x, In x (offered script) -> P (enc_tag x)) ->
  runA s (map cev_of script) = (s', rs) ->
  Forall P (c_sent s) -> Forall P (c_sent s').
Proof.
  induction script as [|ev script IH]; intros s s' rs W HP H F.
  - cbn in H. injection H as <- <-. exact F.
  - cbn [map] in H. rewrite run_cons in H.
    destruct (stepA s (cev_of ev)) as [s1 r] eqn:ST. destruct (runA s1 (map cev_of script)) as [s2 rs'] eqn:RN.
    injection H as <- <-. inversion W as [|? ? W1 W2]; subst.
    apply (IH s1 s2 rs' W2); [| exact RN |].
    + intros x HI. apply HP. destruct ev; cbn [offered]; try exact HI. right. exact HI.
    + destruct (step_sent _ _ _ _ _ _ ST) as [E|(who & bs & async & E1 & E2)]; [rewrite E; exact F|].
      rewrite E2. constructor; [|exact F].
      destruct ev as [who' p prior async'| | | | | |]; cbn [cev_of] in E1; try discriminate.
      cbn [lev_wf] in W1. rewrite (enc_of_wf prior p W1) in E1. injection E1 as <- <- <-.
      apply (HP (who', p)). left. reflexivity.
Qed.

(* ---- the packet whose Send reported the failure is never whole on the wire *)

Lemma carrier_close_wire s : cn_wire (fst (carrier_close s)) = cn_wire s.
Proof. unfold carrier_close. destruct (c_closed s); reflexivity. Qed.

Lemma carrier_deadline_enc s : c_enc (fst (carrier_deadline s)) = c_enc s.
Proof.
  unfold carrier_deadline. destruct (c_closed s && c_dlc s); [reflexivity|].
  destruct (c_dlleft s) as [[|k]|]; reflexivity.
Qed.

(* a failing bufio Write of a non-empty p leaves a non-empty part of buffer ++ p off the wire *)
Lemma bw_write_fail_rest s p s' c :
  e_berr s = None -> p <> [] -> bw_write s p = (s', Some c) ->
  exists rest, rest <> [] /\ wire_bytes s' ++ rest = wire_bytes s ++ e_buf s ++ p.
Proof.
  intros B Hp. unfold bw_write. rewrite B.
  destruct (len p <=? wcap - len (e_buf s)) eqn:Fit; [discriminate|].
  destruct (e_buf s) as [|b0 bt] eqn:EB; cbn [is_nil].
  { intros H. destruct (bw_direct_spec _ _ _ _ B H) as (_ & _ & _ & _ & E1 & _).
    exists p. split; [exact Hp|]. rewrite E1. reflexivity. }
  set (k := wcap - len (b0 :: bt)).
  set (s0 := set_buf s ((b0 :: bt) ++ takeN k p)).
  assert (B0 : e_berr s0 = None) by exact B.
  destruct (bw_flush s0) as [s1 [c1|]] eqn:FL;
    pose proof (bw_flush_spec _ _ _ FL) as (_ & _ & _ & A4); rewrite B0 in A4.
  - intros H; injection H as <- <-. destruct A4 as (E1 & _).
    exists ((b0 :: bt) ++ p). split; [discriminate|]. rewrite E1. reflexivity.
  - destruct A4 as (E1 & E2 & E3 & _).
    assert (W1 : wire_bytes s1 ++ dropN k p = wire_bytes s ++ (b0 :: bt) ++ p).
    { rewrite E1. unfold s0 at 2. cbn [set_buf e_buf]. change (wire_bytes s0) with (wire_bytes s).
      rewrite <- !app_assoc. f_equal. f_equal. apply takeN_dropN. }
    destruct (len (dropN k p) <=? wcap) eqn:Fit2; [discriminate|].
    intros H. destruct (bw_direct_spec _ _ _ _ E3 H) as (_ & _ & _ & _ & G1 & _).
    exists (dropN k p). split; [|rewrite G1; exact W1].
    intros Z. rewrite Z in Fit2. discriminate.
Qed.

Lemma mw_write_fail_rest s p fl s' c :
  e_aerr s = None -> e_berr s = None -> p <> [] -> mw_write s p fl = (s', Some c) ->
  exists rest, rest <> [] /\ wire_bytes s' ++ rest = wire_bytes s ++ e_buf s ++ p.
Proof.
  intros A B Hp. unfold mw_write. rewrite A. destruct p as [|b0 bt]; [contradiction|]. cbn [is_nil].
  destruct (bw_write s (b0 :: bt)) as [s1 [c1|]] eqn:BW.
  - intros H; injection H as <- <-. exact (bw_write_fail_rest _ _ _ _ B Hp BW).
  - pose proof (bw_write_spec _ _ _ _ B BW) as (_ & _ & _ & V1 & V2 & _).
    destruct (fl || e_delay0 s1).
    + destruct (bw_flush s1) as [s2 [c2|]] eqn:FL; [|discriminate].
      intros H; injection H as <- <-. pose proof (bw_flush_spec _ _ _ FL) as (_ & _ & _ & A4). rewrite V2 in A4.
      destruct A4 as (E1 & _ & _ & E4 & _). exists (e_buf s1). split; [exact E4|]. rewrite E1. exact V1.
    + discriminate.
Qed.

(* once the buffered writer is dead nothing changes on the wire or in the logs *)
Lemma dead_step detect decode s ev s' r :
  e_berr (c_enc s) <> None -> good_ev ev -> cn_step detect decode s ev = (s', r) ->
  cn_wire s' = cn_wire s /\ c_sent s' = c_sent s /\ c_acc s' = c_acc s.
Proof.
  intros B G H. destruct (e_berr (c_enc s)) as [cb|] eqn:B0; [clear B|contradiction].
  destruct ev as [who [bs|] async| | | | |z|]; cbn [cn_step] in H.
  - rewrite B0 in H. destruct (mw_write (c_enc s) bs (negb async)) as [e' r1] eqn:MW.
    pose proof (mw_write_spec _ _ _ _ _ MW) as (_ & M).
    destruct (e_aerr (c_enc s)) as [ca|] eqn:A.
    + destruct M as [-> ->]. cbn [is_some negb andb] in H. injection H as <- <-.
      rewrite carrier_close_wire, carrier_close_sent, carrier_close_acc. repeat split.
    + destruct M as (_ & M). rewrite B0 in M. destruct M as (M0 & _).
      assert (Hp : bs <> []) by (destruct bs; [contradiction|discriminate]).
      destruct (M0 (or_introl Hp)) as [-> ->]. cbn [is_some negb andb] in H. injection H as <- <-.
      rewrite carrier_close_wire, carrier_close_sent, carrier_close_acc. repeat split.
  - injection H as <- <-. rewrite carrier_close_wire, carrier_close_sent, carrier_close_acc. repeat split.
  - destruct (r_res (dec_read detect decode (c_lim s) (c_dec s))) as [fr p|er].
    + destruct (carrier_deadline (set_dec s _)) as [s2 [c|]] eqn:DL; injection H as <- <-;
        rewrite ?carrier_close_wire, ?carrier_close_sent, ?carrier_close_acc.
      * change s2 with (fst (s2, Some c)). rewrite <- DL. unfold cn_wire.
        rewrite carrier_deadline_enc, carrier_deadline_sent, carrier_deadline_acc. repeat split.
      * change s2 with (fst (s2, @None N)). rewrite <- DL. unfold cn_wire.
        rewrite carrier_deadline_enc, carrier_deadline_sent, carrier_deadline_acc. repeat split.
    + injection H as <- <-. rewrite carrier_close_wire, carrier_close_sent, carrier_close_acc. repeat split.
  - destruct (mw_write (c_enc s) [] true) as [e' r1] eqn:MW.
    pose proof (mw_write_spec _ _ _ _ _ MW) as (_ & M).
    destruct (carrier_close (set_enc s e')) as [s2 r2] eqn:CC. injection H as <- _.
    change s2 with (fst (s2, r2)). rewrite <- CC, carrier_close_wire, carrier_close_sent, carrier_close_acc.
    cbn [set_enc c_sent c_acc]. split; [|split; reflexivity]. unfold cn_wire. cbn [set_enc c_enc].
    destruct (e_aerr (c_enc s)) as [ca|].
    + destruct M as [-> _]. reflexivity.
    + destruct M as (_ & M). rewrite B0 in M. destruct M as (_ & M1 & _). exact M1.
  - injection H as <- <-. cbn [set_enc c_sent c_acc]. split; [|split; reflexivity]. unfold cn_wire. cbn [set_enc c_enc].
    pose proof (mw_timer_spec (c_enc s)) as (_ & _ & T). rewrite B0 in T. destruct T as (T1 & _). exact T1.
  - injection H as <- <-. unfold cn_wire. rewrite carrier_deadline_enc, carrier_deadline_sent, carrier_deadline_acc. repeat split.
  - injection H as <- <-. repeat split.
  - injection H as <- <-. destruct (e_fail (c_enc s)); repeat split.
Qed.

(* when the sent log is one entry ahead of the accepted log (a Send reported a failure),
   a non-empty part of that entry's bytes is missing from the wire *)
Definition short_wire (s : cstate) : Prop :=
  forall x, c_sent s = x :: c_acc s ->
    exists rest, rest <> [] /\ cn_wire s ++ rest = log_bytes (c_sent s).

Lemma cons_neq_self {A} (x : A) l : l <> x :: l.
Proof. intros E. apply (f_equal (@length _)) in E. cbn [length] in E. lia. Qed.

Lemma cons2_neq_self {A} (x y : A) l : y :: l <> x :: y :: l.
Proof. intros E. apply (f_equal (@length _)) in E. cbn [length] in E. lia. Qed.

Lemma step_short detect decode s ev s' r :
  inv s -> short_wire s -> good_ev ev -> cn_step detect decode s ev = (s', r) -> short_wire s'.
Proof.
  intros I J G H. destruct (e_berr (c_enc s)) as [cb|] eqn:B.
  - assert (B' : e_berr (c_enc s) <> None) by (rewrite B; discriminate).
    destruct (dead_step _ _ _ _ _ _ B' G H) as (E1 & E2 & E3).
    unfold short_wire. rewrite E1, E2, E3. exact J.
  - destruct I as (I1 & _). destruct (I1 B) as [SA WB]. unfold cn_wire in WB.
    intros x E'.
    assert (NS : c_sent s' = c_sent s -> False).
    { intros E. pose proof (step_acc _ _ _ _ _ _ H) as AC. rewrite E, SA in E'.
      destruct ev as [who [bs|] async| | | | |z|]; try (rewrite AC in E'; exact (cons_neq_self _ _ E')).
      destruct r; rewrite AC in E'; first [exact (cons_neq_self _ _ E')|idtac].
      apply (f_equal (@length _)) in E'. cbn [length] in E'. lia. }
    destruct ev as [who [bs|] async| | | | |z|];
      try (exfalso; destruct (step_sent _ _ _ _ _ _ H) as [E|(w & b & a & E & _)]; [exact (NS E)|discriminate E]).
    cbn [cn_step] in H.
    destruct (mw_write (c_enc s) bs (negb async)) as [e' r1] eqn:MW.
    destruct (e_aerr (c_enc s)) as [ca|] eqn:A.
    { exfalso. apply NS. cbn [is_some negb andb] in H.
      destruct r1; injection H as <- _; rewrite ?carrier_close_sent; reflexivity. }
    rewrite B in H. cbn [is_some negb andb] in H.
    destruct r1 as [c|].
    + injection H as <- _. rewrite carrier_close_sent, carrier_close_wire. cbn [c_sent]. unfold cn_wire. cbn [c_enc].
      assert (Hp : bs <> []) by (destruct bs; [contradiction|discriminate]).
      destruct (mw_write_fail_rest _ _ _ _ _ A B Hp MW) as (rest & R1 & R2).
      exists rest. split; [exact R1|]. rewrite R2, app_assoc, WB, log_bytes_cons, SA. reflexivity.
    + exfalso. injection H as <- _. cbn [c_sent c_acc] in E'. rewrite SA in E'. exact (cons2_neq_self _ _ _ E').
Qed.

Lemma run_short detect decode evs : forall s s' rs,
  inv s -> short_wire s -> Forall good_ev evs -> cn_run detect decode s evs = (s', rs) -> short_wire s'.
Proof.
  induction evs as [|ev evs IH]; intros s s' rs I J G H; cbn [cn_run] in H.
  - injection H as <- <-. exact J.
  - destruct (cn_step detect decode s ev) as [s1 r] eqn:ST. destruct (cn_run detect decode s1 evs) as [s2 rs'] eqn:RN.
    injection H as <- <-. inversion G as [|? ? G1 G2]; subst.
    apply (IH s1 s2 rs'); [exact (step_inv _ _ _ _ _ _ I G1 ST)|exact (step_short _ _ _ _ _ _ I J G1 ST)|exact G2|exact RN].
Qed.

Lemma short_init d0 wl cs e lim dl dlc cf : short_wire (cinit d0 wl cs e lim dl dlc cf).
Proof. intros x E. discriminate E. Qed.

(* LINK, FAILURE SIDE.  ANY script on A — Sends of well-formed packets by any goroutines,
   buffered or flushed, timer firings, A's own Receives, Close anywhere, Sends after Close — over
   ANY failing carrier (refusing writes after k Write calls, or from some event on), and ANY
   re-chunking of whatever A's carrier accepted: B decodes a PREFIX of
       the packets whose Send returned nil, in the order of their Send events,
       followed by at most one more packet: that of the Send that reported the failure
   and then stops: at a packet boundary (j = 0: EOF for io.EOF) or j bytes into the next packet
   of that list (ErrUnexpectedEOF for io.EOF) — never a packet that was not sent, never a
   reordering, never a packet made from partial bytes.  `lost` is what did not arrive. *)
Theorem link_prefix_on_failure :
  forall d0 wl csA eA limA dl dlc cf script sA rsA cs limB eB,
    Forall lev_wf script ->
    Forall (within limB) (map snd (offered script)) ->
    a_run (a_init d0 wl csA eA limA dl dlc cf) script = (sA, rsA) ->
    rechunk cs (link_chunks sA) ->
    let b := b_recv limB cs eB in
    exists extra lost j,
      (extra = [] \/
       exists x, extra = [snd x] /\ In x (offered script) /\ e_berr (c_enc sA) <> None /\ lost <> []) /\
      b_packets b ++ lost = map snd (laccepted script rsA) ++ extra /\
      a_frames b = map (frame_of wire_spec) (b_packets b) /\
      a_err b = end_err eB j /\
      match lost with
      | [] => j = 0 /\ concat cs = concat (map wire_spec (b_packets b))
      | p :: _ => j < len (wire_spec p) /\
                  concat cs = concat (map wire_spec (b_packets b)) ++ takeN j (wire_spec p)
      end.
Proof.
  intros d0 wl csA eA limA dl dlc cf script sA rsA cs limB eB W L H RC b.
  unfold a_run, a_init in H.
  destruct (whole _ _ _ _ _ _ _ _ _ _ _ _ _ (good_script _ W) H) as ((rest & PW) & SA & RA).
  unfold rechunk in RC. rewrite cn_wire_chunks in RC.
  rewrite (accepted_cev_of _ _ W) in RA.
  assert (LA : log_bytes (c_acc sA) = concat (map wire_spec (map snd (laccepted script rsA)))).
  { unfold log_bytes. rewrite RA. apply concat_enc_tag. }
  assert (SW : Forall (fun x => exists y, In y (offered script) /\ x = enc_tag y) (c_sent sA)).
  { refine (run_sent _ script _ _ _ W _ H _); [|constructor]. intros x HI. exists x. auto. }
  set (acc := map snd (laccepted script rsA)) in *.
  pose proof (run_short _ _ _ _ _ _ (inv_init d0 wl csA eA limA dl dlc cf) (short_init d0 wl csA eA limA dl dlc cf)
                (good_script _ W) H) as SH.
  assert (G : exists extra,
            (extra = [] \/ exists x, extra = [snd x] /\ In x (offered script) /\ e_berr (c_enc sA) <> None /\
                                     exists rest0, rest0 <> [] /\ cn_wire sA ++ rest0 = log_bytes (c_sent sA)) /\
            log_bytes (c_sent sA) = concat (map wire_spec (acc ++ extra)) /\
            Forall wfp (acc ++ extra) /\ Forall (within limB) (acc ++ extra)).
  { destruct SA as [E|(x & E & B)].
    - exists []. rewrite app_nil_r. split; [left; reflexivity|]. split; [rewrite E; exact LA|].
      split; [exact (laccepted_wf script rsA W)|exact (laccepted_within limB script rsA L)].
    - rewrite E in SW. inversion SW as [|? ? (y & Y1 & Y2) _]; subst.
      exists [snd y]. split; [right; exists y; split; [reflexivity|]; split; [exact Y1|]; split; [exact B|exact (SH _ E)]|]. split.
      + rewrite E, log_bytes_cons, LA, map_app, concat_app. cbn [enc_tag snd map concat]. rewrite app_nil_r. reflexivity.
      + pose proof (offered_wf script W) as OW. pose proof L as L'. rewrite Forall_forall in OW, L'.
        split; apply Forall_app; split.
        * exact (laccepted_wf script rsA W).
        * constructor; [|constructor]. apply OW. apply in_map. exact Y1.
        * exact (laccepted_within limB script rsA L).
        * constructor; [|constructor]. apply L'. apply in_map. exact Y1. }
  destruct G as (extra & EX & LB & Wf & Lf).
  rewrite LB, <- RC in PW.
  destruct (b_recv_prefix limB (acc ++ extra) cs eB rest Wf Lf PW) as (lost & j & P1 & P2 & P3 & P4). fold b in P1, P2, P3, P4.
  exists extra, lost, j. split; [|auto].
  destruct EX as [EX|(x & X1 & X2 & X3 & rest0 & X4 & X5)]; [left; exact EX|].
  right. exists x. split; [exact X1|]. split; [exact X2|]. split; [exact X3|].
  intros ->. destruct P4 as (_ & P4). rewrite app_nil_r in P1. rewrite P1, <- LB, RC in P4.
  rewrite <- (app_nil_r (cn_wire sA)) in P4 at 1. rewrite <- X5 in P4.
  apply app_inv_head in P4. apply X4. symmetry. exact P4.
Qed.

(* hence: what B receives is a prefix of the packets whose Send returned nil to its caller —
   B never gets a packet whose Send reported the failure *)
Theorem link_prefix_of_accepted :
  forall d0 wl csA eA limA dl dlc cf script sA rsA cs limB eB,
    Forall lev_wf script ->
    Forall (within limB) (map snd (offered script)) ->
    a_run (a_init d0 wl csA eA limA dl dlc cf) script = (sA, rsA) ->
    rechunk cs (link_chunks sA) ->
    let b := b_recv limB cs eB in
    prefix_of (b_packets b) (map snd (laccepted script rsA)) /\
    prefix_of (a_frames b) (map (frame_of wire_spec) (map snd (laccepted script rsA))) /\
    a_frames b = map (frame_of wire_spec) (b_packets b) /\
    (exists j, a_err b = end_err eB j) /\
    (eB = SEof -> a_err b = EEof \/ a_err b = EUnexpectedEof).
Proof.
  intros d0 wl csA eA limA dl dlc cf script sA rsA cs limB eB W L H RC b.
  destruct (link_prefix_on_failure _ _ _ _ _ _ _ _ _ _ _ _ _ eB W L H RC) as (extra & lost & j & EX & P1 & P2 & P3 & _).
  fold b in P1, P2, P3.
  assert (PF : prefix_of (b_packets b) (map snd (laccepted script rsA))).
  { destruct EX as [->|(x & -> & _ & _ & NL)].
    - rewrite app_nil_r in P1. exists lost. exact P1.
    - destruct (exists_last NL) as (lost' & q & ->). rewrite app_assoc in P1.
      apply app_inj_tail in P1. destruct P1 as [P1 _]. exists lost'. exact P1. }
  split; [exact PF|]. split.
  { rewrite P2. destruct PF as (rest & <-). exists (map (frame_of wire_spec) rest). rewrite map_app. reflexivity. }
  split; [exact P2|]. split; [exists j; exact P3|].
  intros ->. rewrite P3. unfold end_err. destruct (j =? 0); auto.
Qed.


(* ---------------------------------------------------------------- B as a BaseConn *)

Definition recv_results (a : dall) : list cres :=
  map (fun f => CRPacket (fst f) (snd f)) (a_frames a) ++ [CRRecvErr (a_err a)].

(* on an open connection whose SetReadDeadline does not fail, Receive called until the first
   error returns what dec_all returns: the packets, then that error *)
Lemma receives_dec_all detect decode fuel : forall s,
  c_closed s = false -> c_dlleft s = None ->
  let a := dec_all_f detect decode fuel (c_lim s) (c_dec s) in
  a_err a <> EOutOfFuel ->
  snd (cn_run detect decode s (repeat CReceive (S (length (a_frames a))))) = recv_results a.
Proof.
  induction fuel as [|f IH]; intros s C D a NF; [exfalso; apply NF; reflexivity|].
  unfold a in *. clear a. cbn [dec_all_f] in *.
  set (rd := dec_read detect decode (c_lim s) (c_dec s)) in *.
  destruct (r_res rd) as [fr p|er] eqn:RR.
  - cbn [a_frames a_err length] in *.
    change (repeat CReceive (S (S (length (a_frames (dec_all_f detect decode f (c_lim s) (r_state rd)))))))
      with (CReceive :: repeat CReceive (S (length (a_frames (dec_all_f detect decode f (c_lim s) (r_state rd)))))).
    rewrite run_cons. cbn [cn_step]. fold rd. rewrite RR.
    assert (DL : carrier_deadline (set_dec s (r_state rd)) = (set_dec s (r_state rd), None)).
    { unfold carrier_deadline. cbn [set_dec c_closed c_dlc c_dlleft]. rewrite C, D. reflexivity. }
    rewrite DL.
    specialize (IH (set_dec s (r_state rd)) C D). cbn [set_dec c_lim c_dec] in IH. specialize (IH NF).
    destruct (cn_run detect decode (set_dec s (r_state rd)) _) as [s2 rs2]. cbn [snd] in *.
    rewrite IH. reflexivity.
  - cbn [a_frames a_err length repeat]. rewrite run_cons. cbn [cn_step]. fold rd. rewrite RR. reflexivity.
Qed.

Lemma b_receives_recv limB cs eB :
  b_receives limB cs eB (S (length (a_frames (b_recv limB cs eB)))) = recv_results (b_recv limB cs eB).
Proof.
  unfold b_receives, b_recv, dec_all.
  apply (receives_dec_all detect_impl codec_decode (S (length (concat cs))) (b_init limB cs eB) eq_refl eq_refl).
  exact (dec_all_fuel_ok detect_impl codec_decode limB cs eB).
Qed.

(* link_delivers with B a BaseConn: n+1 Receive calls return the n packets sent, then EOF *)
Theorem link_delivers_conn :
  forall d0 csA eA limA dl dlc script last sA rsA cs limB eB,
    Forall lquiet script -> lflushing last ->
    Forall (within limB) (map snd (offered (script ++ [last]))) ->
    a_run (a_init d0 None csA eA limA dl dlc false) (script ++ [last]) = (sA, rsA) ->
    rechunk cs (link_chunks sA) ->
    let ps := map snd (offered (script ++ [last])) in
    b_receives limB cs eB (S (length ps)) =
    map (fun p => CRPacket (wire_spec p) p) ps ++ [CRRecvErr (end_err eB 0)].
Proof.
  intros d0 csA eA limA dl dlc script last sA rsA cs limB eB Q Fl L H RC ps.
  destruct (link_delivers _ _ _ _ _ _ _ _ _ _ _ _ eB Q Fl L H RC) as (_ & _ & _ & F1 & _ & F3 & _).
  fold ps in F1. pose proof (b_receives_recv limB cs eB) as R. rewrite F1, map_length in R. rewrite R.
  unfold recv_results. rewrite F1, F3, map_map. reflexivity.
Qed.

(* link_delivers with the decoder side's own model of DetectPacket (Dec.detect_go, C02) *)
Theorem link_delivers_detect_go :
  forall d0 csA eA limA dl dlc script last sA rsA cs limB eB,
    Forall lquiet script -> lflushing last ->
    Forall (within limB) (map snd (offered (script ++ [last]))) ->
    a_run (a_init d0 None csA eA limA dl dlc false) (script ++ [last]) = (sA, rsA) ->
    rechunk cs (link_chunks sA) ->
    let ps := map snd (offered (script ++ [last])) in
    let b := dec_all detect_go_view codec_decode limB cs eB in
    a_frames b = map (frame_of wire_spec) ps /\ a_err b = end_err eB 0.
Proof.
  intros d0 csA eA limA dl dlc script last sA rsA cs limB eB Q Fl L H RC ps b.
  destruct (link_delivers _ _ _ _ _ _ _ _ _ _ _ _ eB Q Fl L H RC) as (_ & _ & _ & F1 & _ & F3 & _).
  pose proof (dec_all_detect_go limB cs eB) as V. unfold aview in V. fold b in V.
  unfold b_recv in F1, F3. injection V as V1 V2 _ _. rewrite <- V1, <- V2. split; assumption.
Qed.
