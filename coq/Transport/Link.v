(* Link.v — LK: one direction of a connection pair, end to end.  Definitions only.

     connection A (transport.BaseConn, Transport/BaseConn.v)           the SENDING side
       | Send(pkt, async) = packet.Encoder.Write: Enc.encoder_write (the real encoder,
       |   over a pooled buffer with arbitrary earlier content) hands pkt's bytes to
       |   mercury/bufio; Close; the flush timer; carrier failures — `lev` scripts
       v
     carrier wire: the Write calls A's carrier accepted, in order (link_chunks)
       | the network may split and merge these in any way: ANY list of chunks `cs`
       |   with the same concatenation (rechunk)
       v
     connection B's decoder (packet.Decoder, Stream/Stream.v) with the REAL codec as
     instantiated in Stream/StreamCodec.v: detect_impl (DetectPacket) and codec_decode
     (Type.New() + Dec.decode_go)                                      the RECEIVING side

   A link event carries the PACKET (not bytes); cev_of turns it into the BaseConn event
   whose bytes are what the real encoder produces for it (None if Encode fails).        *)
From Coq Require Import List NArith Bool.
From Coq.Strings Require Import Byte.
From GM Require Import Codec.Packet Codec.WF Codec.WireSpec.
From GM Require Codec.Enc.
From GM Require Import Stream.Stream Stream.EncStream Stream.FramesProofs Stream.StreamCodec Transport.BaseConn.
Import ListNotations.
Open Scope N_scope.

(* ---------------------------------------------------------------- the sending side *)

(* Encoder.Write's encoding step on a pooled buffer that holds `prior` *)
Definition enc_of (prior : bytes) (p : packet) : option (list byte) :=
  match Enc.encoder_write prior p with
  | Enc.XSent bs => Some bs
  | _ => None
  end.

Inductive lev :=
| LSend (who : N) (p : packet) (prior : bytes) (async : bool)   (* goroutine `who` calls Send(p, async) *)
| LTimer                                                        (* the flush timer fires *)
| LDelay (zero : bool)                                          (* SetMaxWriteDelay *)
| LSetTimeout                                                   (* SetReadTimeout *)
| LReceive                                                      (* A's own Receive (the other direction) *)
| LClose                                                        (* Close *)
| LFailWrites.                                                  (* A's carrier starts refusing writes *)

Definition cev_of (ev : lev) : cev :=
  match ev with
  | LSend who p prior async => CSend who (enc_of prior p) async
  | LTimer => CTimer
  | LDelay z => CDelay z
  | LSetTimeout => CSetTimeout
  | LReceive => CReceive
  | LClose => CClose
  | LFailWrites => CFailWrites
  end.

(* every packet handed to Send is well-formed *)
Definition lev_wf (ev : lev) : Prop :=
  match ev with LSend _ p _ _ => wf p = true | _ => True end.

(* sends of well-formed packets, timer firings, delay / timeout changes: no failure, no Close *)
Definition lquiet (ev : lev) : Prop :=
  match ev with
  | LSend _ p _ _ => wf p = true
  | LTimer | LDelay _ | LSetTimeout => True
  | _ => False
  end.

(* an event after which nothing may stay in A's write buffer: Close, a timer firing,
   a flushed (sync) Send of a well-formed packet *)
Definition lflushing (ev : lev) : Prop :=
  match ev with
  | LClose | LTimer => True
  | LSend _ p _ false => wf p = true
  | _ => False
  end.

(* (goroutine, packet) of every Send event, in event order = the order in which the Sends
   got sendMutex; one goroutine's Sends are sequential, so restricted to one goroutine this
   is the order in which that goroutine sent *)
Fixpoint offered (script : list lev) : list (N * packet) :=
  match script with
  | [] => []
  | LSend who p _ _ :: script' => (who, p) :: offered script'
  | _ :: script' => offered script'
  end.

(* the packets goroutine g sent, in the order it sent them *)
Definition sent_by (g : N) (script : list lev) : list packet :=
  map snd (filter (fun x => fst x =? g) (offered script)).

(* (goroutine, packet) of the Sends that returned nil, in event order *)
Fixpoint laccepted (script : list lev) (rs : list cres) : list (N * packet) :=
  match script, rs with
  | LSend who p _ _ :: script', CROk :: rs' => (who, p) :: laccepted script' rs'
  | _ :: script', _ :: rs' => laccepted script' rs'
  | _, _ => []
  end.

(* the packets sent with async = true (buffered; Send returns before anything reaches the carrier) *)
Fixpoint buffered (script : list lev) : list packet :=
  match script with
  | [] => []
  | LSend _ p _ true :: script' => p :: buffered script'
  | _ :: script' => buffered script'
  end.

(* connection A, fresh: its own receive direction (chunks csA then eA, limit limA, deadline
   script) is arbitrary; d0 = SetMaxWriteDelay(0) was called; wl = Some k: the carrier takes
   k more Write calls and then refuses every write; cf: the carrier's Close reports an error *)
Definition a_init (d0 : bool) (wl : option N) (csA : list (list byte)) (eA : src_end) (limA : N)
           (dl : option N) (dlc cf : bool) : cstate :=
  cinit d0 wl csA eA limA dl dlc cf.

Definition a_run (s0 : cstate) (script : list lev) : cstate * list cres :=
  cn_run detect_impl codec_decode s0 (map cev_of script).

(* ---------------------------------------------------------------- the wire *)

(* the Write calls A's carrier accepted, oldest first *)
Definition link_chunks (s : cstate) : list (list byte) := rev (e_wire (c_enc s)).

(* cs carries the same byte stream as w, cut differently *)
Definition rechunk (cs w : list (list byte)) : Prop := concat cs = concat w.

(* two extreme re-chunkings, for the examples *)
Definition bytewise (w : list (list byte)) : list (list byte) := map (fun b => [b]) (concat w).
Definition one_chunk (w : list (list byte)) : list (list byte) := [concat w].

(* ---------------------------------------------------------------- the receiving side *)

(* B reads until the first error: the packets with their byte ranges, and that error *)
Definition b_recv (limB : N) (cs : list (list byte)) (eB : src_end) : dall :=
  dec_all detect_impl codec_decode limB cs eB.

Definition b_packets (a : dall) : list packet := map snd (a_frames a).

(* the same through B's BaseConn: a fresh connection whose carrier delivers cs then eB,
   SetReadDeadline never fails; n+1 Receive calls *)
Definition b_init (limB : N) (cs : list (list byte)) (eB : src_end) : cstate :=
  cinit false None cs eB limB None false false.

Definition b_receives (limB : N) (cs : list (list byte)) (eB : src_end) (n : nat) : list cres :=
  snd (cn_run detect_impl codec_decode (b_init limB cs eB) (repeat CReceive n)).

(* within B's read limit (0 = no limit) *)
Definition within (limB : N) (p : packet) : Prop := fits wire_spec limB p.

(* l1 is an initial segment of l2 *)
Definition prefix_of {A} (l1 l2 : list A) : Prop := exists rest, l1 ++ rest = l2.

(* the whole link, as a function (for evaluation) *)
Definition link_run (s0 : cstate) (script : list lev) (cut : list (list byte) -> list (list byte))
           (limB : N) (eB : src_end) : list cres * list (list byte) * dall :=
  let '(sA, rsA) := a_run s0 script in
  (rsA, link_chunks sA, b_recv limB (cut (link_chunks sA)) eB).
