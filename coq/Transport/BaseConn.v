(* BaseConn.v — CN: model of transport.BaseConn (transport/base_conn.go) over a
   failing carrier.  Definitions only.

   Send / Close run under sendMutex, Receive / SetReadTimeout under receiveMutex:
   each is ONE atomic event here (that sync.Mutex provides this is trusted; the
   race detector and the concurrent harness give runtime evidence).  All
   nondeterminism — which goroutine gets the mutex next, when the flush timer
   fires, when the carrier starts failing — is in which event comes next.

   carrier: writes as in EncStream.v; reads deliver the scripted chunks, then
   the scripted end; Close makes every later Write fail and every later Read
   fail at once (nothing more is delivered), returns an injected error the first
   time if scripted and "closed" from the second call on; SetReadDeadline fails
   from the k-th call on if scripted, and on a closed carrier iff c_dlc is set
   (net.Conn and websocket.Conn behave like that).                              *)
From Coq Require Import List NArith Bool.
From Coq.Strings Require Import Byte.
From GM Require Import Codec.Packet Stream.Stream Stream.EncStream.
Import ListNotations.
Open Scope N_scope.

Record cstate := CS {
  c_enc    : estate;
  c_dec    : dstate;
  c_closed : bool;                 (* carrier.Close has been called *)
  c_lim    : N;                    (* read limit *)
  c_dlleft : option N;             (* SetReadDeadline calls that still succeed (None: all) *)
  c_dlc    : bool;                 (* SetReadDeadline fails on a closed carrier *)
  c_clfail : bool;                 (* the first carrier.Close returns an error *)
  (* ghost history, newest first *)
  c_sent   : list (N * list byte); (* (sender, encoding) of every Send whose bytes were handed to a live writer *)
  c_acc    : list (N * list byte)  (* those that returned nil *)
}.

Definition cinit (delay0 : bool) (wleft : option N) (chunks : list (list byte)) (e : src_end)
           (lim : N) (dlleft : option N) (dlc clfail : bool) : cstate :=
  CS (einit delay0 wleft) (dinit chunks e) false lim dlleft dlc clfail [] [].

Definition set_enc (s : cstate) (e : estate) : cstate :=
  CS e (c_dec s) (c_closed s) (c_lim s) (c_dlleft s) (c_dlc s) (c_clfail s) (c_sent s) (c_acc s).
Definition set_dec (s : cstate) (d : dstate) : cstate :=
  CS (c_enc s) d (c_closed s) (c_lim s) (c_dlleft s) (c_dlc s) (c_clfail s) (c_sent s) (c_acc s).

(* carrier.Close: Some code = the error it returns *)
Definition carrier_close (s : cstate) : cstate * option N :=
  if c_closed s then (s, Some code_closed)
  else (CS (set_fail (c_enc s) (Some code_closed))
           (DS (d_buf (c_dec s)) [] (SErr code_closed))
           true (c_lim s) (c_dlleft s) (c_dlc s) false (c_sent s) (c_acc s),
        if c_clfail s then Some code_carrier else None).

(* carrier.SetReadDeadline *)
Definition carrier_deadline (s : cstate) : cstate * option N :=
  if c_closed s && c_dlc s then (s, Some code_closed)
  else match c_dlleft s with
       | Some 0 => (s, Some code_carrier)
       | Some k => (CS (c_enc s) (c_dec s) (c_closed s) (c_lim s) (Some (k - 1)) (c_dlc s) (c_clfail s)
                       (c_sent s) (c_acc s), None)
       | None => (s, None)
       end.

Inductive cev :=
| CSend (who : N) (bs : option (list byte)) (async : bool)
| CReceive
| CClose
| CTimer
| CSetTimeout
| CDelay (zero : bool)
| CFailWrites.                      (* the carrier starts refusing writes (peer gone) *)

Inductive cres :=
| CROk                              (* Send / Close returned nil *)
| CRErr (code : N)                  (* carrier error *)
| CREnc                             (* Encode failed *)
| CRPacket (frame : list byte) (p : packet)
| CRRecvErr (e : derr)
| CRNone.

Section CN.
  Variable detect : list byte -> detection.
  Variable decode : N -> list byte -> option packet.

  Definition cn_step (s : cstate) (ev : cev) : cstate * cres :=
    match ev with
    | CSend who None _ =>
        (* Encode failed: BaseConn.Send still closes the carrier *)
        (fst (carrier_close s), CREnc)
    | CSend who (Some bs) async =>
        let '(e', r) := mw_write (c_enc s) bs (negb async) in
        (* the bytes were handed to a live buffered writer (no stored flush error to report
           first, no sticky bufio error that makes Write return at once) *)
        let reached := negb (is_some (e_aerr (c_enc s))) && negb (is_some (e_berr (c_enc s))) in
        let sent' := if reached then (who, bs) :: c_sent s else c_sent s in
        match r with
        | None => (CS e' (c_dec s) (c_closed s) (c_lim s) (c_dlleft s) (c_dlc s) (c_clfail s)
                      sent' ((who, bs) :: c_acc s), CROk)
        | Some c =>
            let s1 := CS e' (c_dec s) (c_closed s) (c_lim s) (c_dlleft s) (c_dlc s) (c_clfail s)
                         sent' (c_acc s) in
            (fst (carrier_close s1), CRErr c)
        end
    | CReceive =>
        let r := dec_read detect decode (c_lim s) (c_dec s) in
        let s1 := set_dec s (r_state r) in
        match r_res r with
        | RFail e => (fst (carrier_close s1), CRRecvErr e)
        | RPacket fr p =>
            match carrier_deadline s1 with
            | (s2, None) => (s2, CRPacket fr p)
            | (s2, Some c) => (fst (carrier_close s2), CRErr c)
            end
        end
    | CClose =>
        let '(e', r1) := mw_write (c_enc s) [] true in
        let '(s2, r2) := carrier_close (set_enc s e') in
        (s2, match r1 with Some c => CRErr c | None => match r2 with Some c => CRErr c | None => CROk end end)
    | CTimer => (set_enc s (mw_timer (c_enc s)), CRNone)
    | CSetTimeout => (fst (carrier_deadline s), CRNone)
    | CDelay z => (set_enc s (set_delay0 (c_enc s) z), CRNone)
    | CFailWrites =>
        (match e_fail (c_enc s) with
         | Some _ => s
         | None => set_enc s (set_fail (c_enc s) (Some code_carrier))
         end, CRNone)
    end.

  Fixpoint cn_run (s : cstate) (evs : list cev) : cstate * list cres :=
    match evs with
    | [] => (s, [])
    | ev :: evs' => let '(s1, r) := cn_step s ev in
                    let '(s2, rs) := cn_run s1 evs' in (s2, r :: rs)
    end.
End CN.

Definition cn_wire (s : cstate) : list byte := wire_bytes (c_enc s).
Definition log_bytes (l : list (N * list byte)) : list byte := concat (map snd (rev l)).
