"""C01 — codec encoder side: Len/Encode/Encoder.Write against Enc.v, WireSpec.v (packet/)."""
import re
import resource

ASSUMPTIONS = [
    "bytes.Buffer/sync.Pool hand Encoder.Write a buffer of the requested size with arbitrary prior contents (modelled as such)",
    "Go's int/uint64 arithmetic does not overflow on packet sizes (lengths are unbounded N in the model)",
    "copy, encoding/binary.PutUvarint and BigEndian.PutUint16 behave as documented (modelled, compared through the helper hooks)",
]

CLAUSES = ("encode_total", "len_spec", "len_is_written", "layout", "wire_exact", "short_buffer", "roundtrip", "varint")
# each clause is an extracted judge of coq/Codec/EncJudge.v (proved of the model: C01_judges_sound, C01_stream_judge_sound,
# C01_header_judge_sound) evaluated on the implementation's observations alone


def run(ck):
    ck.coq()
    if not ck.build_harness("codecenc"):
        return
    # the extracted list functions recurse as deep as the longest packet (2 MiB)
    try:
        resource.setrlimit(resource.RLIMIT_STACK, (resource.RLIM_INFINITY, resource.RLIM_INFINITY))
    except (ValueError, OSError):
        ck.notes.append("could not raise the stack limit for the model runner")
    extra = ["-replay", ck.replay] if ck.replay else []
    path, _ = ck.harness("c01", extra=extra)
    lines = ck.model("codecenc", "c01", path)
    cases = {}
    impls = {}
    batches = {}
    with open(path) as f:
        for l in f:
            if l.startswith("case "):
                cases[l.split(" ", 2)[1]] = l.rstrip("\n")
            elif l.startswith("impl "):
                impls[l.split(" ", 2)[1]] = l.rstrip("\n")[:4000]
            elif l.startswith("batch "):
                batches[l.split(" ", 2)[1]] = l.rstrip("\n")[:4000]
    witnessed = False
    tie_only = []
    for l in lines:
        if l.startswith("propfail "):
            f = l.split()
            k, clause = f[1], f[2]
            if k == "hw":      # helper case: the line itself is the input
                ck.fail_input(clause, l[:600], [l[:2000]])
            elif k == "he":
                m = re.search(r"type=(\d+) flags=(\d+) rl=(\d+) tl=(\d+) cap=(\d+)", l)
                ck.fail_input(clause, l[:600], ["he %s %s %s %s %s -" % m.groups() if m else "", l[:2000]])
            elif k == "batch":         # several packets through one Encoder: the cases, then the batch line
                ids = f[3][4:].split(",")
                ck.fail_input(clause, l[:600], [cases.get(i, "") for i in ids] + [batches.get(f[3][4:], ""), l[:2000]])
            else:
                ck.fail_input(clause, l[:600], [cases.get(k, ""), impls.get(k, ""), l[:2000]])
            witnessed = True
        elif l.startswith("diff "):
            tie_only.append(l[:2000])
    if tie_only and not witnessed:
        # the implementation deviates from the model, yet every clause evaluated on its
        # observed behaviour still holds: the theorems no longer speak about this code
        replay = []
        for l in tie_only[:20]:
            k = l.split()[1]
            if k in cases:
                replay.append(cases[k])
            replay.append(l)
        ck.fail_unwitnessed("correspondence Codec/Enc.v ~ packet encoder (%d disagreeing cases, first: %s)"
                            % (len(tie_only), tie_only[0][:300]), replay)
    if ck.tier == "thorough" and not ck.replay:
        # T-exh in the kernel: defaultFlags / Valid / New / GetID for all 16 type nibbles
        rows = []
        with open(path) as f:
            for l in f:
                if l.startswith("tt "):
                    rows.append([int(x) for x in l.split()[1:6]])
        enc = lambda v: 255 if v < 0 else v
        v = ("From Coq Require Import List NArith Bool.\nFrom GM Require Import Codec.Packet.\nImport ListNotations.\n"
             "Open Scope N_scope.\nOpen Scope bool_scope.\n"
             "Definition sample (t : ptype) : packet := match t with\n"
             " | TConnect => Connect (Conn [] 0 [] [] true None 4) | TConnack => Connack false 0\n"
             " | TPublish => Publish false (Msg [] [] 0 false) 4711 | TPuback => Puback 4711 | TPubrec => Pubrec 4711\n"
             " | TPubrel => Pubrel 4711 | TPubcomp => Pubcomp 4711 | TSubscribe => Subscribe 4711 [] | TSuback => Suback 4711 []\n"
             " | TUnsubscribe => Unsubscribe 4711 [] | TUnsuback => Unsuback 4711 | TPingreq => Pingreq | TPingresp => Pingresp\n"
             " | TDisconnect => Disconnect end.\n"
             "(* row: nibble, defaultFlags, Valid, type of New() (255 = error), GetID of New() with ID 4711 (255 = no id) *)\n"
             "Definition agrees (r : N*N*N*N*N) : bool := let '(nib, df, valid, nt, gid) := r in\n"
             "  match type_of_code nib with\n"
             "  | None => (df =? 0) && (valid =? 0) && (nt =? 255) && (gid =? 255)\n"
             "  | Some t => (df =? default_flags t) && (valid =? 1) && (nt =? type_code (ptype_of (sample t))) && (nib =? type_code t)\n"
             "              && (gid =? match get_id (sample t) with Some i => i | None => 255 end)\n"
             "  end.\n")
        v += "Definition observed : list (N*N*N*N*N) := [%s].\n" % "; ".join(
            "(%d,%d,%d,%d,%d)" % (r[0], r[1], r[2], enc(r[3]), enc(r[4])) for r in rows)
        v += ("Lemma tie : forallb agrees observed = true.\nProof. vm_compute; reflexivity. Qed.\n"
              "Lemma covers_all_nibbles : map (fun r => let '(nib, _, _, _, _) := r in nib) observed = "
              "[0;1;2;3;4;5;6;7;8;9;10;11;12;13;14;15].\nProof. vm_compute; reflexivity. Qed.\n")
        ok, out = ck.tie_v("Observed_packet", v)
        ck.extra["exhaustive_type_table"] = bool(ok)
        ck.extra["in_kernel_table_rows"] = len(rows)
        if not ok and not witnessed:
            ck.fail_unwitnessed("Tie/Observed_packet.v (in-kernel table of defaultFlags/Valid/New/GetID for all 16 type nibbles)",
                                ["tt " + " ".join(str(x) for x in r) for r in rows])
        ck.coqchk(["GM.Props.C01"])
    ck.evaluations = ck.stats.get("model_cases", 0)
    ck.distinct = ck.stats.get("model_distinct", 0)
    ck.rule = ("per packet value: Len(), Encode into exactly Len() bytes, Len() and Encode once more on the same object, Encode into a "
               "dirty buffer of Len()+{1,7,64} bytes (fill byte varied), Encode into 0, 1, Len()/2, Len()-2, Len()-1 bytes, Encoder.Write after a "
               "larger 0xee packet went through the sync.Pool (GOMAXPROCS 1: deterministic re-use) and with an emptied pool, Type.New().Decode "
               "of the encoded bytes; every third value again on an object that already went through Len/Encode/Write holding another value; "
               "every 25 cases the last six encodable packets asynchronously through ONE Encoder, then flushed. Judged by the extracted clauses "
               "of Codec/EncJudge.v (len_is_written, len_spec, encode_total, layout, dirty, short, wire_exact, roundtrip, stream, header; each "
               "proved of the model), then compared with len_go, encode_go, encode_into, encoder_write. Packets: full flag matrices of every "
               "type; every value 0..255 of connack code, suback code, publish/subscribe/will QoS, protocol level; ids through both bytes' "
               "values (all 65535 in the thorough tier); string lengths {0,1,2,127,128,255,256,32767,32768,65534,65535} per string field; "
               "sizes solved for remaining lengths {0,1,126..129,16382..16385,2097151,2097152 (thorough: 2097150..2097153 and list-shaped)}; "
               "lists of 1..8, 9..1000 at powers of two +-1, and 3000-5000 entries; seeded random well-formed packets; not-well-formed "
               "packets (error vs error, Len/Encode agreement); helper functions varintLen/headerLen/writeVarint/encodeHeader/writeLPBytes/"
               "writeUint compared directly up to and beyond 268435455 (encodeHeader and writeVarint also judged); type table for all 16 "
               "nibbles. distinct_nontrivial = distinct (type, remaining-length size class, flag row, well-formed?, outcome) labels hit")
