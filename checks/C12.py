"""C12 — broker connection (broker/client.go): see coq/Broker/Conn.v, ConnSpec.v, coq/Props/C12.v."""
import os, sys
sys.path.insert(0, os.path.dirname(os.path.abspath(__file__)))
import _bc, _sys, mb_common

ASSUMPTIONS = _bc.ASSUMPTIONS


def run(ck):
    if ck.replay and any(l.startswith("hist ") for l in open(ck.replay).read().splitlines()):
        # a witness of the backend stage
        ck.coq()
        backend_stage(ck, ["-replay", ck.replay])
        return
    _bc.run_bc(ck, "c12", set("c12_will c15_in_order c20_closes c12_will_link".split()))  # the last two added by the audit (audit/C12.md), with the harness-side clauses c12_keepalive_armed / c12_keepalive_expiry
    if ck.replay:
        return
    ev, di = ck.evaluations, ck.distinct
    rule = ck.rule
    ex = _sys.run_sys(ck, "c12")
    ck.evaluations = ev + ck.stats.get("direct_clauses_evaluated", 0)
    ck.distinct = di + ck.stats.get("scenarios", 0)
    ck.rule = rule + "; plus whole broker (Engine + MemoryBackend over TCP loopback): the will (QoS 0/1/2) of a client ending by close / protocol error reaches an idle observer and an observer whose window is used up and whose queue is full at that moment exactly once (will_delivered), the backend is handed the will once (will_once), no will after DISCONNECT; keep-alive over TCP: clients that fall silent (keep-alive 1 s requested, or 60 s requested and 1 s imposed by the backend) are dropped and their wills published not before 1.35 s and in bounded time (keepalive_will), a client sending PINGREQ every 200 ms stays (keepalive_alive), a silent client subscribed to a topic fed every 100 ms is dropped all the same; observers of a will (QoS 0/1/2, retained or not): online, offline with a persistent session (exactly once after the reconnect for QoS>0), subscribing later (replayed with the retain flag iff retained) (will_delivered, will_retained); a client that stopped reading, with the broker's write towards it blocked, is still ended by its keep-alive and its will published (keepalive_will); a client with a retained will dying while an observer's SUBSCRIBE is being acknowledged (hook inside the acknowledgement): the observer gets the will exactly once (will_delivered)"
    if ex:
        ck.samples = ck.samples[:4] + [l for l in ex if l.startswith("direct ")][:3]
    backend_stage(ck)


def backend_stage(ck, extra=()):
    # backend stage: the will reaches the backend as a Publish by a connection that is closing (broker/client.go cleanup); whether it
    # is then "published" is the backend's doing.  The real MemoryBackend, operation by operation against Broker/Backend.v (families
    # closewill: wills of the connections a backend shutdown ends, every QoS, retained / clearing, stored / temporary owners; ownwill: the
    # owner's own persistent session subscribed to the will topic, displaced or shut down; ownfull: the owner's own queue full); only the
    # steps the harness marks as will publications are judged here, by the delivery / acceptance / retained clauses of the backend spec.
    if ck.build_harness("backend"):
        os.environ["MB_FAMILY"] = "closewill,ownwill,ownfull"
        try:
            bpath, _ = ck.harness("mb", out_name="mb_for_c12.txt", extra=list(extra), timeout=3000)
        finally:
            os.environ.pop("MB_FAMILY", None)
        blines = ck.model("backend", "mb", bpath)
        bex = open(bpath).read().splitlines()
        wills = mb_common.will_steps(bex)
        judged = {"targets", "closing_accepted", "retained", "delivery", "offline_queue", "live_copy", "qos", "queue_full_atomic"}
        for l in blines:
            f = l.split()
            if l.startswith("propfail ") and f[1] in wills and f[2] in judged:
                ck.fail_input("backend_will_" + f[2], l, mb_common.history_lines(bex, f[1]))
        ck.evaluations += len(wills)
        ck.extra["backend_will_steps"] = len(wills)
        ck.rule += ("; plus the backend stage (real MemoryBackend step by step against the model, families closewill, ownwill, ownfull): every Publish made by a "
                    "closing connection (its will: after a backend Close, during a takeover) is accepted, reaches every matching session that outlives it - the "
                    "owner's own persistent session included - and updates the retained store (backend_will_<clause>)")
