"""C12 — broker connection (broker/client.go): see coq/Broker/Conn.v, ConnSpec.v, coq/Props/C12.v."""
import os, sys
sys.path.insert(0, os.path.dirname(os.path.abspath(__file__)))
import _bc, _sys

ASSUMPTIONS = _bc.ASSUMPTIONS


def run(ck):
    _bc.run_bc(ck, "c12", set("c12_will c15_in_order c20_closes".split()))  # the last two added by the audit (audit/C12.md), with the harness-side clauses c12_keepalive_armed / c12_keepalive_expiry
    if ck.replay:
        return
    ev, di = ck.evaluations, ck.distinct
    rule = ck.rule
    ex = _sys.run_sys(ck, "c12")
    ck.evaluations = ev + ck.stats.get("direct_clauses_evaluated", 0)
    ck.distinct = di + ck.stats.get("scenarios", 0)
    ck.rule = rule + "; plus whole broker (Engine + MemoryBackend over TCP loopback): the will (QoS 0/1/2) of a client ending by close / protocol error reaches an idle observer and an observer whose window is used up and whose queue is full at that moment exactly once (will_delivered), the backend is handed the will once (will_once), no will after DISCONNECT; keep-alive over TCP: clients that fall silent (keep-alive 1 s requested, or 60 s requested and 1 s imposed by the backend) are dropped and their wills published not before 1.35 s and in bounded time (keepalive_will), a client sending PINGREQ every 200 ms stays (keepalive_alive), a silent client subscribed to a topic fed every 100 ms is dropped all the same; observers of a will (QoS 0/1/2, retained or not): online, offline with a persistent session (exactly once after the reconnect for QoS>0), subscribing later (replayed with the retain flag iff retained) (will_delivered, will_retained); a client that stopped reading, with the broker's write towards it blocked, is still ended by its keep-alive and its will published (keepalive_will); a client with a retained will dying while an observer's SUBSCRIBE is being acknowledged (hook inside the acknowledgement): the observer gets the will exactly once (will_delivered)"
    if ex:
        ck.samples = ck.samples[:4] + [l for l in ex if l.startswith("direct ")][:3]
