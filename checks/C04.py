"""C04 — topic matching in both directions (topic/tree.go: match, search, clean, topicSegment/topicShorten)."""
import os
import re

ASSUMPTIONS = [
    "values are compared with Go's == on interface{}; the model uses natural numbers (the harness stores small ints)",
    "'$'-prefixed topics are not special in the property's relation nor in tree.go (DESIGN.md, C04 scope note)",
    "Go map iteration order is arbitrary: Search results are compared as sorted lists, SearchFirst must be one of the values "
    "the model can return under some child order (Trie.tsearch_firsts) and an element of the specification's answer",
]


def run(ck):
    ck.coq()
    if not ck.build_harness("topic"):
        return
    extra = ["-replay", os.path.abspath(ck.replay)] if ck.replay else []
    path, _ = ck.harness("c04", extra=extra)
    lines = ck.model("topic", "c04", path)
    ex = open(path).read().splitlines()
    sets = {}
    for l in ex:
        if l.startswith("set ") or l.startswith("hset ") or l.startswith("q "):
            sets.setdefault(l.split(" ", 2)[1], []).append(l)
    witnessed = False
    for l in ex:
        if l.startswith("direct ") and " FAIL " in l:
            m = re.search(r"filter=(\S+) name=(\S+)", l)
            sm = re.search(r"set=(\S+)", l)
            ck.fail_input(l.split()[1], l, ["pair %s %s" % (m.group(1), m.group(2)), l] if m else
                          (sets.get(sm.group(1), []) + [l] if sm else [l]))
            witnessed = True
    tie_only = []
    for l in lines:
        if l.startswith("propfail "):
            clause = l.split()[1]
            m = re.search(r"filter=(\S+) name=(\S+)", l)
            s = re.search(r"set=(\S+) topic=(\S+)", l)
            if m:
                rep = ["pair %s %s" % (m.group(1), m.group(2)), l]
            elif s:
                rep = [x for x in sets.get(s.group(1), []) if x.startswith("set ") or x.startswith("hset ") or x.split()[2] == s.group(2)] + [l]
            else:
                rep = [l]
            ck.fail_input(clause, l, rep)
            witnessed = True
        elif l.startswith("diff "):
            tie_only.append(l)
    # topic.Parse / ContainsWildcards (Props/C04_parse.v, model Topic/Parse.v)
    # (its theorems are compiled and counted by vcheck together with Props/C04.v: Props/C04_*.v)
    ppath, _ = ck.harness("parse", extra=extra)
    for l in ck.model("topic", "parse", ppath):
        if l.startswith("propfail parse"):
            m = re.search(r"input=(\S+)", l)
            ck.fail_input("parse", l, ["parse %s" % m.group(1), l] if m else [l])
            witnessed = True
        elif l.startswith("diff "):
            tie_only.append(l)
    if tie_only and not witnessed:
        # the implementation agrees with `matches` on every evaluated input but deviates from the trie model
        ck.fail_unwitnessed("correspondence Topic/Trie.v ~ topic.Tree match/search (%d disagreeing cases)" % len(tie_only), tie_only[:20])
    if ck.tier == "thorough" and not ck.replay:
        ck.coqchk(["GM.Props.C04"])
    ck.evaluations = ck.stats.get("model_cases", 0)
    ck.distinct = ck.stats.get("model_distinct", 0)
    ck.rule = ("every valid filter (%s) x every name (%s) over levels {a, b, empty} + {+, #} up to depth %s: a single-entry tree per filter "
               "asked Match/MatchFirst for every name, a single-entry tree per name asked Search/SearchFirst for every filter, each answer "
               "compared with MatchSpec.matches and with the trie model; %s random sets of 1..12 filters/names (13-level alphabet incl. empty, "
               "multi-byte UTF-8, '$SYS'; depth up to 12; shared prefixes; values 1..5 repeated across topics) x 16 queries derived from the "
               "stored topics (instantiated / generalised / perturbed), all four queries; distinct_nontrivial = distinct (filter, name) pairs "
               "+ distinct (set, query) lines; topic.Parse/ContainsWildcards: every string up to length %s over {a, /, +, #} and random "
               "longer valid-UTF-8 strings (with NUL, '$', multi-byte), both values of allowWildcards (%s cases), compared with the model "
               "Parse.parse and classified by Parse.parse_spec / normal_form" % (ck.stats.get("exh_filters"), ck.stats.get("exh_names"), ck.stats.get("exh_depth"),
                                                  ck.stats.get("random_sets"), ck.stats.get("parse_exhaustive_depth"),
                                                  ck.stats.get("parse_cases")))
