"""C14 — no client can crash or stall the broker or disturb any other client."""
import os, sys
sys.path.insert(0, os.path.dirname(os.path.abspath(__file__)))
import _sys, _bc

ASSUMPTIONS = _bc.ASSUMPTIONS + [
    "no-panic and no-stall of the PROCESS are runtime claims: decided by the hostile-peer scenarios (a panic kills the harness and is reported with the scenario), "
    "the proved part is the logic: total decoding (C02), forwardability (C01+C02), connection life cycle and cleanup progress (Conn.v)",
]


def run(ck):
    ck.coq()
    ex = _sys.run_sys(ck, "c14")
    sys_eval = ck.stats.get("direct_clauses_evaluated", 0)
    sys_scn = ck.stats.get("scenarios", 0)
    # connection-level clause on the broker-connection traces (all families)
    if ck.build_harness("brokerconn"):
        os.environ["BC_FAMILY"] = "c12" if ck.tier == "quick" else "all"
        path, _ = ck.harness("bc")
        lines = ck.model("brokerconn", "bc", path)
        traces = {}
        for l in open(path).read().splitlines():
            f = l.split(" ", 2)
            if f[0] in ("scn", "ev", "end") and len(f) >= 2:
                traces.setdefault(f[1], []).append(l)
        diffs = [l for l in lines if l.startswith("diff ")]
        for l in lines:
            f = l.split()
            if l.startswith("propfail ") and f[2] == "c14_lifecycle":
                ck.fail_input("c14_lifecycle", l, traces.get(f[1], []))
        if diffs and not ck.violations:
            ck.fail_unwitnessed("correspondence coq/Broker/Conn.v ~ broker/client.go: %d observed traces rejected" % len(diffs), diffs[:5])
    if ck.tier == "thorough":
        ck.coqchk(["GM.Props.C14"])
    ck.evaluations = sys_eval + ck.stats.get("model_cases", 0)
    ck.distinct = sys_scn + ck.stats.get("model_distinct", 0)
    if ex:
        ck.samples = [l for l in ex if l.startswith("direct ")][:4] + ck.samples[:3]
    ck.rule = ("hostile peers (random bytes, truncated frames at every third cut, oversized and overlong remaining lengths, raw encodings the "
               "library refuses to produce: empty / NUL / wildcard / 64 KiB topics, QoS 3, id 0, every out-of-protocol packet first and in random "
               "sequences, connect/disconnect storms, a non-acknowledging catch-all subscriber) next to three witness clients exchanging numbered "
               "traffic (connected, complete, ordered), backend shutdown racing with setup, backend calls failing, Setup/Terminate/closed-signal "
               "accounting per connection, goroutine count after shutdown; plus clause c14_lifecycle on broker-connection traces")
