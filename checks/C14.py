"""C14 — no client can crash or stall the broker or disturb any other client."""
import os, sys
sys.path.insert(0, os.path.dirname(os.path.abspath(__file__)))
import _sys, _bc

ASSUMPTIONS = _bc.ASSUMPTIONS + [
    "no-panic and no-stall of the PROCESS are runtime claims: decided by the hostile-peer scenarios (a panic kills the harness and is reported with the scenario), "
    "the proved part is the logic: total decoding (C02), forwardability (C01+C02), connection life cycle and cleanup progress (Conn.v)",
]


def run(ck):
    ck.coq()
    ex = _sys.run_sys(ck, "c14")
    sys_eval = ck.stats.get("direct_clauses_evaluated", 0)
    sys_scn = ck.stats.get("scenarios", 0)
    # connection-level clause on the broker-connection traces (all families)
    if ck.build_harness("brokerconn"):
        os.environ["BC_FAMILY"] = "c12" if ck.tier == "quick" else "all"
        path, _ = ck.harness("bc")
        lines = ck.model("brokerconn", "bc", path)
        traces = {}
        for l in open(path).read().splitlines():
            f = l.split(" ", 2)
            if f[0] in ("scn", "ev", "end") and len(f) >= 2:
                traces.setdefault(f[1], []).append(l)
        diffs = [l for l in lines if l.startswith("diff ")]
        for l in lines:
            f = l.split()
            if l.startswith("propfail ") and f[2] == "c14_lifecycle":
                ck.fail_input("c14_lifecycle", l, traces.get(f[1], []))
        if diffs and not ck.violations:
            ck.fail_unwitnessed("correspondence coq/Broker/Conn.v ~ broker/client.go: %d observed traces rejected" % len(diffs), diffs[:5])
    if ck.tier == "thorough":
        ck.coqchk(["GM.Props.C14"])
    ck.evaluations = sys_eval + ck.stats.get("model_cases", 0)
    ck.distinct = sys_scn + ck.stats.get("model_distinct", 0)
    if ex:
        ck.samples = [l for l in ex if l.startswith("direct ")][:4] + ck.samples[:3]
    ck.rule = ("whole broker (go/cmd/system c14): hostile peers (random bytes, truncated frames at every third cut, bit-flipped sessions, a session dribbled "
               "byte by byte, oversized and overlong remaining lengths, really sent packets at the 1/2/3/4-byte length boundaries and around the 8 MiB read "
               "limit, raw encodings the library refuses to produce: empty / NUL / wildcard / '$' / 64 KiB / 32767-level topics and filters, invalid "
               "filters then publishes along them, QoS 3, id 0, duplicate and maximal ids, every out-of-protocol packet first and after CONNECT, random "
               "sequences, unsolicited PUBACK / PUBCOMP / PUBREC on fresh connections followed by a PINGREQ (unsolicited_acks_harmless), the same followed by QoS 0 deliveries and two takeovers (stray_acks_harmless), witnesses with a 1 s token "
               "timeout whose window is filled by another client's bursts before and after silences of 1.4 token timeouts (witness_window_idle), anonymous clients, connect/disconnect storms, a non-acknowledging catch-all subscriber) next to four witness clients (one "
               "anonymous) exchanging numbered traffic: witness_connected, witness_traffic, witness_order, witness_probe (QoS 2, new subscription, ping "
               "afterwards), offender_closed for 30 definite protocol violations; a publisher parked behind a stalled subscriber's full queue released "
               "when that subscriber closes / disconnects / runs into the token timeout, clean and persistent (publisher_released); silent peers "
               "(keepalive_enforced, silent_peer_dropped); rejected credentials (rejected_released); a backend call failing at each of 11 call sites "
               "for one client (fault_closes_offender, fault_will); backend shutdown racing with setup (random, and gated between Authenticate and "
               "Setup, with six live clients, during a takeover, before a late connection: shutdown_closes_all, late_connection_released); per "
               "scenario lifecycle (every accepted connection: closed signal, Terminate exactly once / at most once / never as due), shutdown, "
               "goroutines, log_lifecycle, log_unique, log_will; process_survives; plus clause c14_lifecycle on broker-connection traces")
