"""Shared part of the MemoryBackend checks (C06, C11, C13): one harness run
(`backend mb`, and `backend mbbox` for the black-box part), one model run, then
classification of the `propfail` / `diff` lines by clause."""
import os

RULE = ("real MemoryBackend driven operation by operation with bare clients, complete state compared with the model after every step "
        "and every specification clause evaluated on the observed step; families: (targets) every filter pair of the 10-filter universe x 7 names "
        "x QoS triples, temporary/stored/clean sessions; (ownfull) the publisher's own matching queue full: live publisher (refused, nothing changes) and "
        "closing publisher (will during a takeover: own session skipped), QoS 0/1/2, temporary and stored, retained flag set, observers; "
        "(closewill) a backend Close with live connections, then the will of each of them (QoS 0/1/2, retained, retained-and-empty; owner with a stored session "
        "subscribed to the will topic or not, a temporary or a clean session), their Terminates, a refused Setup; (ownwill) the will of a connection whose own "
        "persistent session is subscribed to the will topic with room in its queue, the connection displaced (unclean / clean newcomer) or shut down, then dequeued by the resuming connection; "
        "(failedsetup) a Setup that fails by kill timeout or is refused while the backend closes, then the failed newcomer's Terminate, the "
        "displaced connection's Terminate and a further Setup with the id in all 6 orders, clean/unclean mixed; (sizes) payloads of 0,1,127,128,16383,16384,65535,65536,70001 bytes live, retained and replayed; (retained) every name pair x every filter x QoS pairs with delete (at every QoS) and "
        "non-retained publishes, then resubscription; (samepayload) the same payload republished on a topic with another QoS / without the flag / after a delete; (resumeleftover) a persistent session resumed (reconnect / takeover) with 2-4 messages left in its temporary queue; (manyretained) 24 retained topics replayed by r/+, r/# and r/+/x; (exhaustive) every sequence of depth %s over a %s-operation alphabet "
        "(subscribe, unsubscribe, unsubscribe whose acknowledgement callback publishes, publish retained/empty/plain, dequeue, terminate, "
        "resume, clean takeover) after a fixed two-client prefix, "
        "queue size 2; (random) seeded histories of 5..%s operations over 1-6 clients, ids {'',x,y,z}, queue sizes 1,2,3,100, SUBSCRIBE with "
        "1-4 filters, takeovers with and without kill timeout, blocked publishes released by dequeues, publishes from inside the "
        "Unsubscribe acknowledgement, wills of closing connections, backend Close; black-box: scripted MQTT peers through broker.Engine over "
        "net.Pipe (connect/subscribe/unsubscribe/publish QoS 0-2/disconnect/connection loss with will/takeover), deliveries between FIFO "
        "markers compared with the model's queues. "
        "concurrent phase: 4 publishers x 40 messages, 2 dequeuers, a subscribe/unsubscribe churner and connections joining and leaving, judged "
        "directly per subscriber (thorough: once more under the race detector). "
        "distinct_nontrivial = distinct (operation, result, number of sessions, publish class) classes")


def history_lines(ex, label):
    """the hist line and the case lines up to the failing case"""
    h, k = label.split("/")
    out, inside = [], False
    for l in ex:
        if l.startswith("hist "):
            inside = l.split()[1] == h
            if inside:
                out.append(l)
        elif inside and l.startswith("case "):
            out.append(l)
            if l.split()[1] == k:
                break
    return out


def run_mb(ck, clauses, box_clauses=(), conc=(), gate=()):
    """clauses: propfail clause names that belong to the property"""
    ck.coq()
    if not ck.build_harness("backend"):
        return
    if ck.replay and gate and any(l.startswith("gate ") for l in open(ck.replay).read().splitlines()):
        # a witness of the gated families: re-run those scenarios only
        run_gate(ck, gate, extra=["-replay", ck.replay])
        ck.evaluations = ck.extra.get("gated_scenarios", 0)
        ck.rule = GATE_RULE
        return
    extra = ["-replay", ck.replay] if ck.replay else []
    path, _ = ck.harness("mb", extra=extra, timeout=3000)
    lines = ck.model("backend", "mb", path)
    ex = open(path).read().splitlines()
    mine, diffs = [], []
    for l in lines:
        if l.startswith("propfail "):
            f = l.split()
            if f[2] in clauses:
                mine.append((f[2], f[1], l))
        elif l.startswith("diff "):
            diffs.append(l)
    for clause, label, l in mine:
        ck.fail_input(clause, l, history_lines(ex, label) if "/" in label else [l])
    if diffs and not mine:
        first = diffs[0].split()[1]
        ck.fail_unwitnessed("correspondence Broker/Backend.v ~ broker.MemoryBackend (%d disagreeing steps)" % len(diffs),
                            (history_lines(ex, first) if "/" in first else []) + diffs[:10])
    ck.evaluations = ck.stats.get("model_cases", 0)
    ck.distinct = ck.stats.get("model_distinct", 0)
    ck.rule = RULE % (ck.stats.get("exhaustive_depth"), ck.stats.get("alphabet"), 400 if ck.tier == "thorough" else 200)
    if box_clauses and not ck.replay:
        run_box(ck, box_clauses)
    if conc and not ck.replay:
        run_conc(ck, conc)
    if gate and not ck.replay:
        run_gate(ck, gate)
        ck.rule += "; " + GATE_RULE


GATE_RULE = ("gated interleavings (backend mbgate): from inside the acknowledgement callback of a Subscribe another client's retained publishes "
             "(replace / delete / set / delete-and-set / two replacements / set-and-delete / same payload again; QoS rotating) are started and "
             "the subscribing call is kept in the callback until they have returned or are parked at the backend's lock; temporary, stored "
             "and clean sessions, first filter subscribed before or not, 6 filter sets (overlapping, non-matching): the subscriber's queues must "
             "equal, as a multiset of (retain flag, payload), the outcome of the subscription taking effect at some position among the "
             "publishes (subscribe_atomic); watchdog gate_completes")


def run_gate(ck, clauses, extra=()):
    """`backend mbgate`: direct clauses on the real backend (`direct <clause> <n> ok|FAIL …`), scenario lines `gate <n> …`"""
    if not ck.harness_bin:
        return
    path, out = ck.harness("mbgate", out_name="mbgate.txt", extra=list(extra), timeout=1500)
    ex = open(path).read().splitlines() if os.path.exists(path) else []
    scn = {}
    n = 0
    for l in ex:
        f = l.split()
        if len(f) >= 2 and f[0] == "gate":
            scn[f[1]] = l
        elif len(f) >= 4 and f[0] == "direct":
            n += 1
            if f[3] == "FAIL" and f[1] in clauses:
                ck.fail_input("backend_" + f[1], l, [scn.get(f[2], "")] + [l])
    ck.extra["gated_scenarios"] = len(scn)
    ck.evaluations += n


def will_steps(ex):
    """labels <hist>/<case> of the steps the harness marked as will publications (`will <n>` lines: a Publish by a connection that
    was closing when the call was made)"""
    out, h = set(), None
    for l in ex:
        if l.startswith("hist "):
            h = l.split()[1]
        elif l.startswith("will ") and h is not None:
            out.add("%s/%s" % (h, l.split()[1]))
    return out


def run_conc(ck, kinds):
    """concurrent phase on the real backend, judged directly (`direct conc_<kind> <round> ok|FAIL …`); in the thorough
    tier once more under the race detector"""
    if ck.replay or not ck.harness_bin:
        return
    path, out = ck.harness("mbconc", out_name="mbconc.txt", timeout=3000)
    crash = [i for i, l in enumerate(out) if l.startswith("fatal error:") or l.startswith("panic:")]
    if crash:
        # e.g. "fatal error: concurrent map iteration and map write": the backend's own state was corrupted by its clients
        ck.fail_input("atomic", "the real backend crashed in the concurrent phase: " + out[crash[0]], out[crash[0]:crash[0] + 25])
    ex = open(path).read().splitlines() if os.path.exists(path) else []
    n = 0
    for l in ex:
        f = l.split()
        if len(f) >= 4 and f[0] == "direct" and f[1] in kinds:
            n += 1
            if f[3] == "FAIL":
                ck.fail_input(f[1], l, [l])
    ck.extra["concurrent_rounds_judged"] = n
    ck.evaluations += n
    if ck.tier == "thorough":
        rb = ck.build_harness("backend", race=True)
        if rb:
            path, out = ck.harness("mbconc", out_name="mbconc_race.txt", timeout=3000, binary=rb)
            race = [i for i, l in enumerate(out) if "DATA RACE" in l]
            if race:
                ck.fail_input("atomic", "data race reported by the Go race detector in the concurrent phase", out[race[0]:race[0] + 30])
            ck.extra["race_detector_run"] = True


def run_box(ck, clauses):
    path, out = ck.harness("mbbox", out_name="mbbox.txt", timeout=3000)
    if not os.path.exists(path) or os.path.getsize(path) == 0:
        return
    lines = ck.model("backend", "mbbox", path)
    ex = open(path).read().splitlines()
    mine, diffs = [], []
    for l in lines:
        if l.startswith("propfail "):
            f = l.split()
            if f[2] in clauses:
                mine.append((f[2], f[1], l))
        elif l.startswith("diff "):
            diffs.append(l)
    for clause, label, l in mine:
        sc = [x for x in ex if x.startswith("box %s " % label)]
        ck.fail_input("box_" + clause, l, sc + [l])
    if diffs and not mine:
        ck.fail_unwitnessed("black-box deliveries through broker.Engine differ from the model's delivery log (%d scenarios)" % len(diffs), diffs[:10])
    ck.extra["blackbox_scenarios"] = ck.stats.get("box_scenarios", 0)
