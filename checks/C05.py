"""C05 — topic.Tree against a topic -> value-set map: histories, snapshots, lock table, concurrent runs."""
import os
import re

ASSUMPTIONS = [
    "sync.RWMutex gives mutual exclusion: a method whose first statements are mutex.(R)Lock(); defer mutex.(R)Unlock() is one atomic step "
    "(the lock table is re-derived from tree.go by a go/ast pass on every run; the theorems are about sequential histories)",
    "values are compared with Go's == on interface{}; the model uses natural numbers (the harness stores small ints); values are non-nil",
    "concurrent clause: checked on runs where goroutines use pairwise disjoint topics and values (answers determined by C05_commute); "
    "histories with overlapping keys: short timestamped histories (<= 16 operations) checked by the proved-sound linearizability checker; "
    "the clock is one atomic counter read before the call and after the return, so real-time precedence is under-approximated, never invented",
]


def history_replay(line, hist):
    u = re.search(r"uni=(\S+)", line)
    out = ["uni " + u.group(1).replace(",", " ")] if u else []
    for o in hist.split(","):
        out.append("push %s 0" % o)
    return out


def run(ck):
    ck.coq()
    if not ck.build_harness("topic"):
        return
    extra = ["-replay", os.path.abspath(ck.replay)] if ck.replay else []
    witnessed = False
    tie_only = []

    # sequential histories + snapshots
    path, _ = ck.harness("c05", extra=extra)
    lines = ck.model("topic", "c05", path)
    with open(path) as f:
        ex = [l.rstrip("\n") for l in f if not l.startswith("push ") and not l.startswith("pop ") and not l.startswith("ans ")]
    for l in ex:
        if l.startswith("direct ") and " FAIL " in l:
            m = re.search(r"history=(\S+)", l)
            ck.fail_input(l.split()[1], l, (history_replay(l, m.group(1)) if m else []) + [l])
            witnessed = True
    for l in lines:
        if l.startswith("propfail "):
            m = re.search(r"history=(\S+)", l)
            ck.fail_input(l.split()[1], l, (history_replay(l, m.group(1)) if m else []) + [l])
            witnessed = True
        elif l.startswith("diff "):
            tie_only.append(l)

    # a recorded concurrent history is re-checked as recorded
    if ck.replay and any(l.startswith("lin ") for l in open(ck.replay).read().splitlines()):
        lpath, _ = ck.harness("c05lin", extra=extra)
        for l in ck.model("topic", "c05lin", lpath):
            if l.startswith("propfail lin "):
                hist = l.split("history: ", 1)[1] if "history: " in l else ""
                ck.fail_input("lin", l[:400], ["lin %s %s" % (l.split()[2], hist), l])
                witnessed = True

    # lock table + concurrent runs
    if not ck.replay:
        # both tiers run the concurrent parts twice: plain binary (more real parallelism, the runtime's
        # concurrent-map checks) and a -race build (the clause "no data race occurs" is judged by the race detector)
        bins = [(ck.harness_bin, "c05conc.txt")]
        race_bin = ck.build_harness("topic", race=True)
        if race_bin:
            bins.append((race_bin, "c05conc_race.txt"))
        lock_broken = []
        for b, name in bins:
            before = len(ck.broken)
            cpath, out = ck.harness("c05conc", out_name=name, binary=b)
            crashed = len(ck.broken) > before
            text = "\n".join(out)
            if "DATA RACE" in text or "concurrent map" in text:
                # the race detector / the runtime caught unsynchronised access: a concrete failing schedule
                del ck.broken[before:]
                ck.fail_input("race", "data race reported while running c05conc (%s)" % name,
                              [l for l in out if not l.startswith("stat ")][:120])
                witnessed = True
                continue
            if crashed:
                continue
            for l in open(cpath).read().splitlines():
                if l.startswith("direct ") and " FAIL " in l:
                    ck.fail_input(l.split()[1], l, [l])
                    witnessed = True
            clines = ck.model("topic", "c05conc", cpath)
            for l in clines:
                if l.startswith("propfail lock"):
                    lock_broken.append(l)
                elif l.startswith("propfail "):
                    ck.fail_input(l.split()[1], l, [l])
                    witnessed = True
                elif l.startswith("diff "):
                    tie_only.append(l)
        # (iii) timestamped histories on overlapping topics/values, checked by the extracted Lin.lin_verdict
        for b, name in [(x, n.replace("c05conc", "c05lin")) for x, n in bins]:
            before = len(ck.broken)
            lpath, out = ck.harness("c05lin", out_name=name, binary=b)
            text = "\n".join(out)
            if "DATA RACE" in text or "concurrent map" in text:
                del ck.broken[before:]
                ck.fail_input("race", "data race reported while running c05lin (%s)" % name,
                              [l for l in out if not l.startswith("stat ")][:120])
                witnessed = True
                # histories recorded before the abort are still checked below
            elif len(ck.broken) > before:
                continue
            if not os.path.exists(lpath):
                continue
            for l in open(lpath).read().splitlines():
                if l.startswith("direct ") and " FAIL " in l:
                    ck.fail_input(l.split()[1], l, [l])
                    witnessed = True
            for l in ck.model("topic", "c05lin", lpath):
                if l.startswith("propfail lin "):
                    w = l.split(" ", 3)
                    hist = l.split("history: ", 1)[1] if "history: " in l else ""
                    ck.fail_input("lin", l[:400], ["lin %s %s" % (w[2], hist), l])
                    witnessed = True
                elif l.startswith("note lin "):
                    for kv in l.split()[2:]:
                        k, v = kv.split("=")
                        ck.stats["lin_" + k] = ck.stats.get("lin_" + k, 0) + int(v)
        ck.extra["lock_table_ok"] = not lock_broken
        if lock_broken and not witnessed:
            # the syntactic lock discipline no longer checks; the concurrent runs found no failing schedule
            ck.fail_unwitnessed("lock table of topic/tree.go: " + "; ".join(sorted(set(lock_broken)))[:600], sorted(set(lock_broken)))
            witnessed = True
    if tie_only and not witnessed:
        ck.fail_unwitnessed("correspondence Topic/Trie.v ~ topic.Tree (%d disagreeing cases)" % len(tie_only), tie_only[:20])
    if ck.tier == "thorough" and not ck.replay:
        ck.coqchk(["GM.Props.C05"])
    ck.evaluations = ck.stats.get("model_cases", 0)
    ck.distinct = ck.stats.get("model_distinct", 0)
    ck.rule = ("every operation sequence up to length %s over %s operations (topics a, a/b, a/+, a/#, #, b x values 1,2 x add/set/remove, "
               "empty per topic, clear per value, reset); after EACH step Get/Match/MatchFirst/Search/SearchFirst on 8 topics, All, Count and "
               "the canonicalised String() are compared with the trie model and with the map specification; random histories of 150..800 "
               "operations over that universe and over a 16-topic / 4-value one (empty levels, leading/trailing separators, UTF-8); every "
               "returned slice is kept and re-compared after every later operation (%s snapshot comparisons); lock table of %s exported "
               "methods; %s concurrent runs of 2..16 goroutines (%s operations) on disjoint topics/values under shared ancestors; "
               "%s timestamped histories of 2..8 goroutines x 1..4 operations on overlapping topics/values (%s of them with really overlapping "
               "operations, %s undecided within the node budget) checked for linearizability against the map specification; "
               "distinct_nontrivial = distinct (model state, spec state, observed answers) triples + lock rows + concurrent runs"
               % (ck.stats.get("exhaustive_depth"), ck.stats.get("alphabet"), ck.stats.get("snapshot_checks"),
                  ck.stats.get("lock_table_rows"), ck.stats.get("concurrent_runs"), ck.stats.get("concurrent_ops"),
                  ck.stats.get("lin_histories"), ck.stats.get("lin_concurrent"), ck.stats.get("lin_undecided")))
