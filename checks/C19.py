"""C19 — BaseConn under concurrent sends, close and failures (transport/base_conn.go)."""
import importlib.util
import os

ASSUMPTIONS = [
    "PARTIAL (runtime): sync.Mutex makes Send/Close (sendMutex) and Receive/SetReadTimeout (receiveMutex) atomic steps — trusted, with "
    "race-detector evidence in the thorough tier; 'no call blocks' is checked by a 4 s watchdog on real goroutines, not proved",
    "a receive-side failure closes the carrier outside sendMutex and can land between the two carrier writes of one large Send; the model "
    "covers this as a write failure at that point (wleft budget), the wire invariant C19_whole is the same",
    "carrier: a Write takes all bytes or none; after Close every Write and Read fails at once; SetReadDeadline on a closed carrier "
    "fails for net.Conn/websocket.Conn (flag c_dlc), in which case Receive after Close fails at once instead of draining buffered packets",
    "bufio.Writer's error is sticky, so after the first failed flush EVERY later Send fails (stronger than 'the next one'); observed on the real code",
    "timer firing is a model event enabled in every state; that an armed timer eventually fires is Go's time.AfterFunc contract",
    "buffer ownership (the pooled encode buffer must not be reused while its bytes are in the carrier) is outside the model: "
    "checked at run time by the gated-carrier scenario (direct c19_intact) and the race build",
]


def run(ck):
    spec = importlib.util.spec_from_file_location("check_C03_shared", os.path.join(os.path.dirname(__file__), "C03.py"))
    c03 = importlib.util.module_from_spec(spec)
    spec.loader.exec_module(c03)
    ck.coq()
    if not ck.build_harness("stream"):
        return
    extra = ["-replay", os.path.abspath(ck.replay)] if ck.replay else []
    path, _ = ck.harness("c19", extra=extra)
    lines = ck.model("stream", "c19", path)
    c03.classify(ck, path, lines, "Transport/BaseConn.v (cn_step) ~ transport.BaseConn over the instrumented carrier")
    if ck.tier == "thorough" and not ck.replay:
        race = ck.build_harness("stream", race=True)
        if race:
            # the race build runs the quick-size workload (the race detector slows the scenarios 10x)
            rpath, out = ck.harness("c19", out_name="c19_race.txt", binary=race, extra=["-tier", "quick", "-seed", str(ck.seed + 1000)])
            if any("DATA RACE" in l for l in out):
                ck.broken.append("race detector reported a data race in the concurrent scenarios")
            rlines = ck.model("stream", "c19", rpath)
            c03.classify(ck, rpath, rlines, "Transport/BaseConn.v ~ transport.BaseConn (race build)")
            ck.extra["race_build"] = True
        ck.coqchk(["GM.Props.C19"])
    ck.evaluations = (ck.stats.get("model_cases", 0) + ck.stats.get("after_close_checks", 0) + ck.stats.get("close_flushes_checks", 0) +
                      ck.stats.get("close_closes_carrier_checks", 0) + ck.stats.get("error_closes_carrier_checks", 0) +
                      ck.stats.get("intact_checks", 0) + ck.stats.get("loopback_runs", 0) + ck.stats.get("stalled_send_scenarios", 0) +
                      ck.stats.get("timeout_rearmed_checks", 0) + ck.stats.get("close_behind_send", 0))
    ck.distinct = ck.stats.get("model_distinct", 0)
    ck.rule = ("scripts: sends/receives, then the event that kills the connection (Close, carrier write failure, unencodable packet, receive "
               "error), then buffered/flushed sends, timer waits, receives, second Close — compared step by step with cn_step; concurrent: "
               "1..16 sender goroutines x 1..12 packets (some 3-6 KB), Close triggered at a seeded accepted-send count or carrier write, "
               "failures none/write@k/read@k/close/deadline@k/read-timeout expiry, flush delays 0,1,2,5,50 ms; wire parsed back (by the "
               "harness and by the model's dec_all): whole frames only, each a sent packet, per-sender order, nothing accepted before Close "
               "missing, dead connection: flushed send fails, buffered send fails after the delay, receives end in an error, nothing hangs; "
               "Close must call carrier.Close even when its flush fails (write fault injected right before Close / after a failed timer flush, "
               "with a Receive pending); bytes held in a gated carrier Write must stay intact while the same connection receives and another "
               "sends large packets (shared buffer pool, GOMAXPROCS(1)); a sender held inside Send while a third goroutine closes; a Send stalled in "
               "the carrier write (net.Pipe under the real wsStream / NetConn) while the read timeout expires, garbage arrives or Close is called; the "
               "read timeout re-armed after every packet; Close with a connected silent peer unblocks a pending Receive; buffered sends + Close "
               "over real pairs; real TCP and WebSocket pairs (8 runs quick, 60 thorough); harness watchdog and panic recovery turn a stuck or "
               "panicking call into a verdict; see audit/C19.md. "
               "distinct_nontrivial = distinct (operation sequence, result sequence) classes + distinct wire shapes")
