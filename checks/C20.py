"""C20 — broker connection (broker/client.go): see coq/Broker/Conn.v, ConnSpec.v, coq/Props/C20.v."""
import os, sys
sys.path.insert(0, os.path.dirname(os.path.abspath(__file__)))
import _bc, _sys

ASSUMPTIONS = _bc.ASSUMPTIONS


def run(ck):
    _bc.run_bc(ck, "c20", set("c20_gate c20_single_connack c20_responses c20_tokens c20_acted_on c20_closes".split()))  # the last two added by the audit (audit/C20.md)
    if ck.replay:
        return
    # whole broker with the real MemoryBackend.Authenticate (go/cmd/system c20): the connection-level check scripts Authenticate
    ev, di, rule = ck.evaluations, ck.distinct, ck.rule
    ex = _sys.run_sys(ck, "c20")
    ck.evaluations = ev + ck.stats.get("direct_clauses_evaluated", 0)
    ck.distinct = di + ck.stats.get("scenarios", 0)
    ck.rule = rule + ("; plus whole broker (Engine + MemoryBackend over TCP loopback, go/cmd/system c20): raw CONNECTs with username in {absent, empty, u1, u2, unknown} x "
                      "password in {absent, empty, p1, wrong} against Credentials {u1:p1, u2:''} and against no Credentials, each followed in the same write by "
                      "SUBSCRIBE, PUBLISH (QoS 1) and PINGREQ: accepted iff the user is a key and the password the stored one (auth_decision), accepted connections "
                      "fully served (requests_answered), refused ones get CONNACK 5 and nothing else, are closed, publish nothing, are never set up "
                      "(nothing_after_refusal); each of the 14 other packet kinds first: closed without a byte in reply, no Authenticate call, a following "
                      "CONNECT ignored (nothing_before_connect); over an in-memory carrier whose writer blocks when the peer does not read: n+3 SUBSCRIBE / UNSUBSCRIBE / QoS 1 PUBLISH "
                      "(each kind and mixed) pipelined beyond the n = 2 and 10 tokens by a peer that reads late, before and after a silence of 1.4 token timeouts (1 s): still connected, "
                      "every request answered (pipelined_answered); a resumed session releasing 2..3 QoS 2 publishes of its earlier connection next to as many QoS 1 publishes and "
                      "SUBSCRIBE / UNSUBSCRIBE as there are tokens (2, 3, 4, 10) while its peer does not read: every request answered once it reads (acks_beyond_queue)")
    if ex:
        ck.samples = ck.samples[:4] + [l for l in ex if l.startswith("direct ")][:3]
