"""C20 — broker connection (broker/client.go): see coq/Broker/Conn.v, ConnSpec.v, coq/Props/C20.v."""
import os, sys
sys.path.insert(0, os.path.dirname(os.path.abspath(__file__)))
import _bc

ASSUMPTIONS = _bc.ASSUMPTIONS


def run(ck):
    _bc.run_bc(ck, "c20", set("c20_gate c20_single_connack c20_responses c20_tokens c20_acted_on c20_closes".split()))  # the last two added by the audit (audit/C20.md)
