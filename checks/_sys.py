"""Shared by C06, C08, C12, C13, C14, C15, C16: whole-broker runs (real Engine + MemoryBackend over TCP loopback, scripted peers).

go/cmd/system <cmd> writes `scn <n> <name>`, `sys <n> <backend log line>`, `info …` and
`direct <clause> scn=<n> ok|FAIL <detail>` lines.  Every clause is evaluated on what the peers and the recording backend
observed of the implementation alone (no model run): a FAIL is a witnessed violation, replayable from the scenario name and
the backend log.  Clauses judged on the backend log alone (log_unique, log_will, log_lifecycle, log_restore_first,
log_publish_serial; go/cmd/system/judge.go) are evaluated for every scenario of every command.

Timing: the harness never decides by a bare sleep; waits are bounded polls (10 s for what the broker does in milliseconds), so
load makes a run slower, not red.  A scenario that does not finish within 240 s is reported by the harness itself
(`scenario_completes`); a run that has failures and is slow stops early (the failures found are on file)."""
import os
import re
import subprocess


def run_sys(ck, cmd, clauses=None):
    """runs go/cmd/system <cmd>; every `direct <clause> … FAIL` line is a concrete failing scenario.
    A crash of the harness process (a panic in a broker goroutine kills it) is attributed to the
    scenario that was running."""
    if not ck.build_harness("system"):
        return None
    out = []
    try:
        path, out = ck.harness(cmd, timeout=1500)
    except subprocess.TimeoutExpired:
        # the harness's own watchdog should have ended it long before: whatever was running hung the process
        path = os.path.join(ck.work, cmd + ".txt")
        ck.broken.append("harness %s crashed (timeout)" % cmd)
    try:
        ex = open(path).read().splitlines()
    except OSError:
        ex = []
    crashed = [b for b in ck.broken if b.startswith("harness %s crashed" % cmd)]
    if crashed:
        ck.broken = [b for b in ck.broken if b not in crashed]
        begins = [l for l in out if l.startswith("begin ")] or [l for l in ex if l.startswith("scn ")]
        panic = [l for l in out if "panic" in l or "fatal error" in l]
        last = begins[-1] if begins else "(before the first scenario)"
        ck.fail_input("process_survives", "broker process died during scenario: %s; %s" % (last, " ".join(panic[:3])[:400]),
                      [last] + [l for l in out if not l.startswith("begin ")][:60])
    scn = {}
    cur = None
    for l in ex:
        if l.startswith("scn "):
            cur = l.split()[1]
            scn[cur] = [l]
        elif cur is not None and (l.startswith("sys %s " % cur) or ("scn=%s " % cur) in l):
            scn[cur].append(l)
    n_direct = 0
    for l in ex:
        if l.startswith("direct "):
            n_direct += 1
            if " FAIL " in l:
                m = re.search(r"scn=(\d+)", l)
                k = m.group(1) if m else None
                clause = l.split()[1]
                if clauses is None or clause in clauses:
                    ck.fail_input(clause, l, scn.get(k, []) + [l])
    ck.stats["direct_clauses_evaluated"] = ck.stats.get("direct_clauses_evaluated", 0) + n_direct
    return ex
