"""Shared by C13, C14, C15: whole-broker runs (real Engine + MemoryBackend over TCP loopback, scripted peers)."""
import re


def run_sys(ck, cmd, clauses=None):
    """runs go/cmd/system <cmd>; every `direct <clause> … FAIL` line is a concrete failing scenario.
    A crash of the harness process (a panic in a broker goroutine kills it) is attributed to the
    scenario that was running."""
    if not ck.build_harness("system"):
        return None
    path, out = ck.harness(cmd, timeout=1500)
    try:
        ex = open(path).read().splitlines()
    except OSError:
        ex = []
    crashed = [b for b in ck.broken if b.startswith("harness %s crashed" % cmd)]
    if crashed:
        ck.broken = [b for b in ck.broken if b not in crashed]
        begins = [l for l in out if l.startswith("begin ")]
        panic = [l for l in out if "panic" in l or "fatal error" in l]
        last = begins[-1] if begins else "(before the first scenario)"
        ck.fail_input("process_survives", "broker process died during scenario: %s; %s" % (last, " ".join(panic[:3])[:400]),
                      [last] + [l for l in out if not l.startswith("begin ")][:60])
    scn = {}
    cur = None
    for l in ex:
        if l.startswith("scn "):
            cur = l.split()[1]
            scn[cur] = [l]
        elif cur is not None and (l.startswith("sys %s " % cur) or ("scn=%s " % cur) in l):
            scn[cur].append(l)
    n_direct = 0
    for l in ex:
        if l.startswith("direct "):
            n_direct += 1
            if " FAIL " in l:
                m = re.search(r"scn=(\d+)", l)
                k = m.group(1) if m else None
                clause = l.split()[1]
                if clauses is None or clause in clauses:
                    ck.fail_input(clause, l, scn.get(k, []) + [l])
    ck.stats["direct_clauses_evaluated"] = ck.stats.get("direct_clauses_evaluated", 0) + n_direct
    return ex
