"""C09 — Client keeps QoS>=1 publishes until acked; futures resolve truthfully and always."""
import os
import sys

sys.path.insert(0, os.path.dirname(os.path.abspath(__file__)))
import clcommon  # noqa: E402

ASSUMPTIONS = [
    "sync.Mutex makes API calls mutually exclusive; atomic loads/stores of the state word, future-store operations and future Complete/Cancel are the hidden steps of Client/Client.v",
    "an acknowledgement for a request = a PUBACK/PUBCOMP/SUBACK/UNSUBACK carrying its packet id received after the future was stored (the code does not tie the kind of acknowledgement to the kind of request)",
    "'no caller blocks forever' is a quiescence statement in the model and a 2 s watchdog in the harness",
    "fewer than 65535 packet ids are in flight (C18)",
    "client.Tracker reads time.Now() itself: Tracker.v takes the clock as an argument; Ping/Pong/Pending are tied exactly, Window only up to the interval between the surrounding clock readings; the pinger's rule is tied through the trace scenarios pinger/* (real 1 s keep-alive)",
    "observation: an unsolicited PINGRESP wraps Tracker's uint8 counter to 255, Pending stays true and the pinger dies with ErrClientMissingPong at its next turn without having sent a PINGREQ (scenario pinger/unsolicited-pong, thorough tier; Tracker.unsolicited_pong_wraps)",
    "observation, not a violation (DESIGN section 6): the client keys acknowledgements by packet id only, so a SUBACK/UNSUBACK/PUBACK carrying the id of a pending request of another kind removes the stored packet and completes that request's future (scenario observe/spurious-suback-erases-publish records it on every run); kept_until_acked and future_truthful are stated for 'an acknowledgement packet carrying that id'",
    "conn.Receive only returns packets the decoder produced (C02): acknowledgements carry a non-zero id",
    "C09_future_truthful is proved in its step form (a future turns Completed only while an acknowledgement carrying the id it is stored under is processed / CONNACK accepted / after the QoS 0 Send returned nil); the history form with log marks is a Definition and is evaluated on every observed trace by the extracted checker truthful_ok",
    "clause scanners over the observed event sequence (TraceScan.v: scan_sbs, scan_pubrec, scan_resend, unresolved) are proved to accept every trace the model accepts; they are what turns a rejected trace into a witnessed violation",
]

CLAUSES = {
    "direct:cancelled": "future_truthful",   # a sent request's future cancelled while the connection is up
    "direct:overwrite": "kept_until_acked",  # a new request saved over a stored, unacknowledged packet
    "direct:reset": "kept_until_acked",      # Session.Reset on a client that did not ask for a clean session
    "direct:resend": "resend_on_connect",    # CONNACK accepted but AllPackets(Outgoing) never asked for
    "direct:closed_means_quiet": "future_total",  # something of a client still runs after its Close/Disconnect returned
    # the option sweep (go/cmd/client/cfgsweep.go): the documented meaning of a configuration value
    "direct:config": "config_meaning",        # what Connect hands on / refuses, ValidateSubs, Logger
    "direct:keepalive": "config_meaning",     # KeepAlive <= 0: no pinger; d > 0: PINGREQ after d of silence, give up after a further d
    "direct:readlimit": "config_meaning",     # ReadLimit: exact size received, one byte more refused (error callback, futures cancelled, closed)
    "direct:writedelay": "config_meaning",    # MaxWriteDelay: asynchronous packets on the wire within the delay, flushed in order by Disconnect
    "direct:wait": "future_truthful",         # timeouts passed to a future's Wait (0 / negative: wait for the resolution)
    "direct:cbapi": "future_total",           # a request issued from inside the application callback
    "direct:delivery": "future_total",
    "direct:ackheld": "future_total",
    "store_before_send": "store_before_send",
    "kept_until_acked": "kept_until_acked",
    "resend_on_connect": "resend_on_connect",
    "resend_before_new": "resend_on_connect",   # a new request sent/saved between the accepted CONNACK and the last re-send
    "future_truthful": "future_truthful",
    "future_total": "future_total",
    "accessors_total": "accessors_total",
}
KNOWN = {}


def run(ck):
    clcommon.run_cl(ck, "c09", CLAUSES, KNOWN)
    # client.Tracker against Client/Tracker.v: Ping/Pong/Pending exactly, Window within the interval the clock readings allow
    if ck.harness_bin and not ck.replay:
        tpath, _ = ck.harness("tracker", out_name="tracker.txt")
        tl = [l for l in ck.model("client", "tracker", tpath) if l.startswith("diff ")]
        if tl and not ck.violations:
            ck.fail_unwitnessed("correspondence Client/Tracker.v ~ client.Tracker (%d disagreeing cases)" % len(tl), tl[:10])
    ck.rule = ("real client.Client driven through Config.Dialer (RecConn), RecSession around MemorySession and a scripted broker peer; "
               "every observed trace must be accepted by the extracted monitor Client.step (hidden steps placed by search); extracted "
               "predicates store_before_send_ok / truthful_ok / quiescent / pending_futures evaluated after every event; watchers on every "
               "future, accessors called pending and resolved. Scripts: CONNACK variants, acks in/out of order, missing/spurious acks, drop at "
               "each point, concurrent API calls, session reuse across reconnects, one injected failure per Conn/Session operation index; "
               "D13, D13b (Reset/NextID collision) and D8 schedules replayed by gating, Conn.Close failing with unacknowledged futures, Disconnect(timeout) incl. 0 with pending futures; evaluations = observed events; distinct_nontrivial = distinct (event kind, "
               "processor pc, API pc, die pc) labels hit")
