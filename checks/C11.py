"""C11 — retained set = last non-empty retained publish per topic, replayed on subscribe (MemoryBackend)."""
import os
import sys
sys.path.insert(0, os.path.dirname(os.path.abspath(__file__)))
import mb_common  # noqa: E402

ASSUMPTIONS = [
    "sync.Mutex makes Subscribe/Publish atomic; topic.Tree.Search(filter) on the retained tree returns the values whose topic matches the filter "
    "(C04), in an order that is an oracle argument of the model (Go map iteration)",
    "wills reach the backend through the same Publish call (broker/client.go cleanup), so they are publishes of the history",
]


def run(ck):
    mb_common.run_mb(ck, {"retained", "replay", "cap", "live_copy"}, box_clauses={"retained"}, conc={"conc_retained"})
