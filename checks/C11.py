"""C11 — retained set = last non-empty retained publish per topic, replayed on subscribe (MemoryBackend)."""
import os
import sys
sys.path.insert(0, os.path.dirname(os.path.abspath(__file__)))
import mb_common  # noqa: E402
import _sys  # noqa: E402

ASSUMPTIONS = [
    "sync.Mutex makes Subscribe/Publish atomic; topic.Tree.Search(filter) on the retained tree returns the values whose topic matches the filter "
    "(C04), in an order that is an oracle argument of the model (Go map iteration)",
    "wills reach the backend through the same Publish call (broker/client.go cleanup), so they are publishes of the history",
    "that Subscribe and Publish ARE atomic with respect to each other (first assumption) is not taken on trust: the gated families "
    "(backend mbgate: subscribe_atomic; whole broker c11: subscribe_atomic, retained_replayed) let a retained publish of another client run "
    "from inside the acknowledgement of the Subscribe and judge the subscriber's view against every position of the subscription among the publishes",
]


def run(ck):
    mb_common.run_mb(ck, {"retained", "replay", "cap", "live_copy"}, box_clauses={"retained"}, conc={"conc_retained"},
                     gate={"subscribe_atomic", "gate_completes"})
    if ck.replay:
        return
    # whole broker: a SUBSCRIBE whose acknowledgement is in progress while another client's retained publish / delete / re-publish
    # arrives (go/cmd/system c11, r5_backend_c11.go)
    ev, di, rule = ck.evaluations, ck.distinct, ck.rule
    ex = _sys.run_sys(ck, "c11")
    ck.evaluations = ev + ck.stats.get("direct_clauses_evaluated", 0)
    ck.distinct = di + ck.stats.get("scenarios", 0)
    ck.rule = rule + ("; plus whole broker (Engine + MemoryBackend over TCP loopback, go/cmd/system c11): retained message replaced / cleared / set / cleared-and-set / "
                      "replaced twice / set-and-cleared by another client from inside the acknowledgement of a SUBSCRIBE (1-3 filters, overlapping and non-matching ones, "
                      "QoS pairs rotating): the PUBLISH packets the subscriber receives on the topic equal, as a multiset of (retain flag, payload), the outcome of the "
                      "subscription taking effect at SOME position among the publishes (subscribe_atomic); an untouched retained topic is replayed once per matching "
                      "filter (retained_replayed)")
    if ex:
        ck.samples = ck.samples[:5] + [l[:600] for l in ex if l.startswith("direct subscribe_atomic")][:2]
