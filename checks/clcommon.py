"""shared by C09.py / C10.py — classification of the CL trace check."""
import re


def run_cl(ck, cmd, clauses, known_scenarios):
    """cmd: harness/model sub-command; clauses: propfail clause -> property clause name;
    known_scenarios: scenario name -> (clause, regex) that must be reproduced on every run."""
    ck.coq()
    if not ck.build_harness("client"):
        return
    extra = ["-replay", ck.replay] if ck.replay else []
    path, _ = ck.harness(cmd, extra=extra)
    lines = ck.model("client", cmd, path)
    ex = open(path).read().splitlines()
    scn = {}       # n -> all lines of the scenario
    name = {}
    for l in ex:
        f = l.split(" ", 3)
        if f[0] in ("scn", "ev", "mark", "end") and len(f) >= 2:
            scn.setdefault(f[1], []).append(l)
            if f[0] == "scn":
                name[f[1]] = f[2]
    witnessed = False
    for l in ex:
        if l.startswith("direct ") and " FAIL " in l:
            m = re.search(r"scn=(\d+)", l)
            k = m.group(1) if m else ""
            kind = l.split()[1]
            clause = clauses.get("direct:" + kind, {"accessor": "accessors_total"}.get(kind, "future_total"))
            ck.fail_input(clause, l + " scenario=" + name.get(k, "?"), scn.get(k, []) + [l])
            witnessed = True
    reproduced = set()
    tie_only = []
    for l in lines:
        f = l.split()
        if l.startswith("propfail ") and len(f) >= 3:
            k, clause = f[1], f[2]
            text = l + " scenario=" + name.get(k, "?")
            ck.fail_input(clauses.get(clause, clause), text, scn.get(k, []) + [l])
            witnessed = True
            for sname, (cl, rx) in known_scenarios.items():
                if name.get(k) == sname and clause == cl and re.search(rx, l):
                    reproduced.add(sname)
        elif l.startswith("diff "):
            tie_only.append((f[1], l))
    if tie_only and not (ck.violations):
        ks = []
        rl = []
        for k, l in tie_only[:5]:
            rl += scn.get(k, []) + [l]
            ks.append(name.get(k, "?"))
        ck.fail_unwitnessed("correspondence Client/Client.v ~ client.Client: %d observed traces are not accepted by the model (e.g. %s)"
                            % (len(tie_only), ", ".join(ks)), rl)
    if not ck.replay:
        stale = [s for s in known_scenarios if s not in reproduced]
        if stale:
            ck.extra["stale_known_findings"] = stale
            ck.notes.append("known finding no longer reproduced (stale entry?): " + ", ".join(stale))
            print("NOTE: known finding no longer reproduced by its witness scenario (stale entry?): " + ", ".join(stale))
    if ck.tier == "thorough" and not ck.replay:
        ck.coqchk(["GM.Props." + ck.pid])
    ck.evaluations = ck.stats.get("events", 0)
    ck.distinct = ck.stats.get("model_distinct", 0)
    ck.extra["scenarios"] = ck.stats.get("scenarios", 0)
    ck.extra["tie_diffs"] = len(tie_only)
