"""shared by C09.py / C10.py — classification of the CL trace check."""
import re


# scenario families of go/cmd/client (name prefixes), for locating a crash
FAMILIES = {
    "c09": ["cfg/", "cfgerr/", "vsub/", "cbapi/", "ka/", "rl/", "mwd/", "tcp/", "wait/", "basic/", "regress/", "observe/", "gated/", "connack/",
            "resume/", "fault/", "conc/", "acks/", "ledger/", "pinger/"],
    "c10": ["cfg/", "rl/", "basic/", "known/", "seq/", "own/", "gate/", "cberr/", "fault/"],
}


def run_cl(ck, cmd, clauses, known_scenarios):
    """cmd: harness/model sub-command; clauses: propfail clause -> property clause name;
    known_scenarios: scenario name -> (clause, regex) that must be reproduced on every run."""
    ck.coq()
    if not ck.build_harness("client"):
        return
    extra = ["-replay", ck.replay] if ck.replay else []
    path, hout = ck.harness(cmd, extra=extra)
    crashed = [b for b in ck.broken if b.startswith("harness %s crashed" % cmd)]
    if crashed and not ck.replay:
        # the client panicked the process (a goroutine of the client cannot be recovered by the harness): nothing was
        # written.  Find a scenario family that does it by itself and report it with the panic line.
        import os
        panic = next((l for l in hout if l.startswith("panic:")), "the harness process died")
        for fam in FAMILIES.get(cmd, []):
            rp = os.path.join(ck.work, "family.txt")
            open(rp, "w").write("family=%s\n" % fam)
            _, out2 = ck.harness(cmd, out_name="family.txt.out", extra=["-replay", rp])
            if any(l.startswith("panic:") or l.startswith("goroutine ") for l in out2):
                trace = [l for l in out2 if "gomqtt" in l or l.startswith("panic:")][:12]
                ck.broken = [b for b in ck.broken if not b.startswith("harness %s crashed" % cmd)]
                ck.fail_input("no_panic", "the client panics the process in scenario family %s*: %s" % (fam, panic),
                              ["family=%s" % fam, panic] + trace)
                return
        return
    lines = ck.model("client", cmd, path)
    ex = open(path).read().splitlines()
    scn = {}       # n -> all lines of the scenario
    name = {}
    for l in ex:
        f = l.split(" ", 3)
        if f[0] in ("scn", "ev", "mark", "end", "obsev", "obsmark") and len(f) >= 2:
            scn.setdefault(f[1], []).append(l)
            if f[0] == "scn":
                name[f[1]] = f[2]
    witnessed = False
    # findings the option sweep records on this tree (recorded, not failed)
    findings = sorted(set(re.sub(r" scn=\d+$", "", l.split(" ok ", 1)[1]) for l in ex if l.startswith("direct observe ok ") and ":OBSERVED:" in l))
    if findings:
        ck.extra["findings_observed"] = findings
        for f in findings:
            print("NOTE: finding observed (recorded, not failed): " + f[:400])
    for l in ex:
        if l.startswith("direct ") and " FAIL " in l:
            m = re.search(r"scn=(\d+)", l)
            k = m.group(1) if m else ""
            kind = l.split()[1]
            clause = clauses.get("direct:" + kind, {"accessor": "accessors_total"}.get(kind, "future_total"))
            ck.fail_input(clause, l + " scenario=" + name.get(k, "?"), scn.get(k, []) + [l])
            witnessed = True
    reproduced = set()
    tie_only = []
    for l in lines:
        f = l.split()
        if l.startswith("propfail ") and len(f) >= 3:
            k, clause = f[1], f[2]
            text = l + " scenario=" + name.get(k, "?")
            ck.fail_input(clauses.get(clause, clause), text, scn.get(k, []) + [l])
            witnessed = True
            for sname, (cl, rx) in known_scenarios.items():
                if name.get(k) == sname and clause == cl and re.search(rx, l):
                    reproduced.add(sname)
        elif l.startswith("diff "):
            tie_only.append((f[1], l))
    if tie_only and not (ck.violations):
        ks = []
        rl = []
        for k, l in tie_only[:5]:
            rl += scn.get(k, []) + [l]
            ks.append(name.get(k, "?"))
        ck.fail_unwitnessed("correspondence Client/Client.v ~ client.Client: %d observed traces are not accepted by the model (e.g. %s)"
                            % (len(tie_only), ", ".join(ks)), rl)
    if not ck.replay:
        stale = [s for s in known_scenarios if s not in reproduced]
        if stale:
            ck.extra["stale_known_findings"] = stale
            ck.notes.append("known finding no longer reproduced (stale entry?): " + ", ".join(stale))
            print("NOTE: known finding no longer reproduced by its witness scenario (stale entry?): " + ", ".join(stale))
    if ck.tier == "thorough" and not ck.replay:
        ck.coqchk(["GM.Props." + ck.pid])
    ck.evaluations = ck.stats.get("events", 0)
    ck.distinct = ck.stats.get("model_distinct", 0)
    ck.extra["scenarios"] = ck.stats.get("scenarios", 0)
    ck.extra["tie_diffs"] = len(tie_only)
