"""C10 — Client: inbound QoS 2 exactly once, handshakes finish, ack only if accepted."""
import os
import sys

sys.path.insert(0, os.path.dirname(os.path.abspath(__file__)))
import clcommon  # noqa: E402

ASSUMPTIONS = [
    "the processor goroutine is the only caller of Receive, the callback and the acknowledgement writes; its steps are the ones between two calls on Conn/Session/Callback (control points of Client/Client.v)",
    "a handshake is identified by the packet id in the session's incoming store; deliveries the callback rejects are not counted",
    "C10_exactly_once and C10_pubrel_answered are refuted for the current tree (open findings KF-C10-a/b); the partial theorems carry the rest",
    "a second delivery is attributed to KF-C10-b only if a PUBCOMP write for that id failed after the first delivery and a new Client on the same session came before the second; a failing DeletePacket(Incoming) (session failure, outside C10's quantifier, injected for conformance only) is not judged",
    "clause scanners over the observed event sequence (TraceScan.v: scan_ack, scan_hs/hs_twice, scan_noack, scan_close, scan_rel) are proved to accept every trace the model accepts (scan_hs: its table equals the model's ghost table)",
]

CLAUSES = {
    "direct:cancelled": "exactly_once",
    "direct:overwrite": "exactly_once",
    "direct:reset": "exactly_once",          # Session.Reset without clean session wipes stored inbound messages
    "direct:delivery": "qos01",              # a callback is set but the message just received was not passed to it
    "direct:ackheld": "no_ack_on_error",     # an acknowledgement left the client while the callback was still running
    "direct:resend": "pubrec_always",
    # the option sweep (go/cmd/client/cfgsweep.go)
    "direct:config": "config_meaning",
    "direct:readlimit": "no_ack_on_error",   # a packet over ReadLimit is refused: nothing delivered, nothing acknowledged, connection closed
    "pubrec_always": "pubrec_always",
    "no_ack_on_error": "no_ack_on_error",
    "error_closes": "no_ack_on_error",       # second half of the clause: ... and the connection is closed
    "qos01": "qos01",
    "exactly_once": "exactly_once",
    "pubrel_answered": "pubrel_answered",
    "client_in_order": "client_in_order",
}
KNOWN = {
    "known/pubrel-unknown-id": ("pubrel_answered", r"pubrel_unknown_id_unanswered"),
    "known/callback-twice": ("exactly_once", r"callback_twice_after_failed_pubcomp"),
}


def run(ck):
    clcommon.run_cl(ck, "c10", CLAUSES, KNOWN)
    ck.rule = ("real client.Client driven through Config.Dialer by a scripted broker peer; every trace of calls on Conn/Session/Callback "
               "must be accepted by the extracted monitor Client.step (hidden steps placed by search) and the extracted predicates "
               "owed_unanswered / delivered_twice are evaluated after every event. Scripts: every sequence up to the tier's depth over "
               "{PUBLISH(id,qos,dup), PUBREL(id), drop+resume} for 1-3 ids x both callback timings x callback error at each invocation x "
               "send/session failure at each acknowledgement; evaluations = observed events; distinct_nontrivial = distinct "
               "(event kind, processor pc, API pc, die pc) labels hit")
