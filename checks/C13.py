"""C13 — at most one live connection per client id; takeover keeps the session intact."""
import os, sys
sys.path.insert(0, os.path.dirname(os.path.abspath(__file__)))
import _sys

ASSUMPTIONS = [
    "sync.Mutex (global and setup mutex of MemoryBackend) makes each backend method an atomic step",
    "whole-broker scenarios sample schedules; the theorems cover all interleavings of the modelled steps",
    "real-time behaviour of the 5 s kill timeout is an event in the model and not exercised by the quick tier",
]


def run(ck):
    ck.coq()
    ex = _sys.run_sys(ck, "c13")
    if ex is None:
        return
    if ck.tier == "thorough":
        ck.coqchk(["GM.Props.C13"])
    ck.evaluations = ck.stats.get("direct_clauses_evaluated", 0)
    ck.distinct = ck.stats.get("scenarios", 0)
    ck.samples = [l for l in ex if l.startswith("direct ")][:6]
    ck.rule = ("whole broker (Engine + MemoryBackend over TCP loopback): rounds of 2..8 simultaneous CONNECTs with the id of a live "
               "persistent session (old connection idle / mid-handshake / under traffic / dying), clean and unclean mixed; clauses "
               "exactly_one, will_once, not_stalled, lifecycle, shutdown, session handover (session-present, every queued/in-flight message "
               "exactly once, retransmissions flagged dup); the open known finding (old connection blocked in a carrier write) is replayed; "
               "distinct_nontrivial = scenarios run (each a different seed-derived schedule)")
