"""C13 — at most one live connection per client id; takeover keeps the session intact.
State part: client id -> active connection is a partial function consistent with the sessions, a
resumed Setup hands the stored session over (MemoryBackend model, Broker/Backend.v).
Protocol part: whole-broker runs with simultaneous CONNECTs for one id (go/cmd/system c13)."""
import os
import sys
sys.path.insert(0, os.path.dirname(os.path.abspath(__file__)))
import mb_common  # noqa: E402
import _sys  # noqa: E402

ASSUMPTIONS = [
    "Setup is modelled as OSetup (old connection closed, setup mutex held) / OSetupEnd (old connection Closed, or kill timeout)",
    "a connection reaches Closed only after its Terminate (broker/client.go cleanup order, C12_will / C14_lifecycle); a *Client calls Setup once",
    "the uniqueness invariant is stated (and proved) for histories without kill timeout and without backend Close: Terminate removes the "
    "active-clients entry by client id, so a newcomer whose Setup failed removes the old connection's entry "
    "(C13_unique_state_kill_timeout_refuted / _close_refuted; reproduced on the real backend); the invariant is also evaluated on every "
    "observed state of the implementation in such histories",
    "sync.Mutex (global and setup mutex of MemoryBackend) makes each backend method an atomic step; whole-broker scenarios sample schedules; "
    "'no goroutine blocked' and the real-time kill timeout are runtime claims (watchdogs), not theorems",
]


def run(ck):
    # whole broker: simultaneous CONNECTs with one id, handover, the open known finding's witness
    ex = _sys.run_sys(ck, "c13")
    sys_eval = ck.stats.get("direct_clauses_evaluated", 0)
    sys_scn = ck.stats.get("scenarios", 0)
    mb_common.run_mb(ck, {"unique", "handover", "frame", "session_present", "delivery", "offline_queue"}, box_clauses={"delivery"})
    ck.evaluations += sys_eval
    ck.distinct += sys_scn
    if ex:
        ck.samples = [l for l in ex if l.startswith("direct ")][:3] + ck.samples[:4]
    ck.rule += ("; plus whole-broker scenarios (Engine + MemoryBackend over TCP loopback): rounds of 2..8 simultaneous CONNECTs with the id of a "
                "live persistent session (old connection idle / mid-handshake / under traffic / dying), clean and unclean mixed: exactly_one, "
                "will_once, not_stalled, lifecycle, shutdown; session handover (session-present, every queued/in-flight message exactly once, "
                "retransmissions flagged dup); staggered contenders with gated Terminate; takeover landing between Dequeue and SavePacket; "
                "the open known finding (old connection blocked in a carrier write) is replayed")
