"""C13 — at most one live connection per client id; takeover keeps the session intact.
State part: client id -> active connection is a partial function consistent with the sessions, a
resumed Setup hands the stored session over (MemoryBackend model, Broker/Backend.v).
Protocol part: whole-broker runs with simultaneous CONNECTs for one id (go/cmd/system c13)."""
import os
import sys
sys.path.insert(0, os.path.dirname(os.path.abspath(__file__)))
import mb_common  # noqa: E402
import _sys  # noqa: E402

ASSUMPTIONS = [
    "Setup is modelled as OSetup (old connection closed, setup mutex held) / OSetupEnd (old connection Closed, or kill timeout)",
    "a connection reaches Closed only after its Terminate (broker/client.go cleanup order, C12_will / C14_lifecycle); a *Client calls Setup once",
    "the uniqueness invariant (client id -> active connection is a partial function consistent with the sessions) is proved for ALL "
    "histories of the backend model, kill timeouts, Setups refused while the backend closes, and backend Close included (C13_unique_state; "
    "Terminate releases a session / an active-clients entry only if they are the terminating connection's own), and is evaluated on every "
    "observed state of the implementation; what stays open is the liveness of a takeover whose old connection is blocked in a carrier "
    "write (KF-C13-blocked-write), which is not a state property of the backend model",
    "sync.Mutex (global and setup mutex of MemoryBackend) makes each backend method an atomic step; whole-broker scenarios sample schedules; "
    "'no goroutine blocked' and the real-time kill timeout are runtime claims (watchdogs), not theorems",
]


def run(ck):
    # whole broker: simultaneous CONNECTs with one id, handover, the open known finding's witness
    ex = _sys.run_sys(ck, "c13")
    sys_eval = ck.stats.get("direct_clauses_evaluated", 0)
    sys_scn = ck.stats.get("scenarios", 0)
    mb_common.run_mb(ck, {"unique", "handover", "frame", "session_present", "delivery", "offline_queue"}, box_clauses={"delivery"})
    ck.evaluations += sys_eval
    ck.distinct += sys_scn
    if ex:
        ck.samples = [l for l in ex if l.startswith("direct ")][:3] + ck.samples[:4]
    ck.rule += ("; plus whole-broker scenarios (Engine + MemoryBackend over TCP loopback, go/cmd/system c13): rounds of 2,3,..,8 simultaneous CONNECTs "
                "with the id of a live persistent session (old connection idle / inbound QoS 2 exchange open / under traffic / dying at that moment), "
                "clean and unclean mixed: exactly_one, survivor_serves (ping, new subscription served), will_once, not_stalled, lifecycle, shutdown, "
                "goroutines; gated interleavings: four staggered contenders with held-back Terminate, newcomer arriving while the displaced / the "
                "self-dying connection's cleanup is held in Terminate or in the will's publication (connack_after_terminate, connack_after_will, "
                "will_before_takeover), a contender whose own peer hangs up while it waits inside Setup, takeover between Dequeue and SavePacket; "
                "session handover for windows 1 and 3 with queued messages, in-flight PUBLISHes, an in-flight PUBREL, an open inbound QoS 2 exchange, "
                "two subscriptions of differing QoS (handover_sp/_messages/_pubrel/_dup/_ids/_resend_order/_incoming_qos2/_subscriptions), clean takeover "
                "discards, a chain of five takeovers under traffic (takeover_nothing_lost), a retained QoS 1 will towards an offline subscriber; the four clean/persistent takeover combinations with session-present and offline delivery afterwards; "
                "three takeovers separated by pauses longer than a 700 ms kill timeout (takeover_after_pause); "
                "acknowledgements nobody asked for on the old connection (PUBACK / PUBCOMP for unknown ids, a PUBACK sent twice, PUBREC+PUBCOMP+PUBACK for an unknown id; "
                "windows 1, 2, 3 and the default; clean and persistent), then QoS 0 deliveries to it, then two takeovers (exactly_one, old_closed, survivor_serves, will_once, not_stalled); "
                "on every scenario's backend log: log_unique, log_will, log_lifecycle; the open known finding is replayed twice (old connection "
                "blocked in a carrier write; kill timeout reached with a held-back Terminate, then two further CONNECTs)")
