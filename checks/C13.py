"""C13 (STATE part) — client id -> active connection is a partial function consistent with the
sessions; a resumed Setup hands the stored session over (MemoryBackend).  The protocol /
liveness part of C13 (order of Closed and CONNACK, concurrent contenders, nothing blocked) is
not covered by this check yet."""
import os
import sys
sys.path.insert(0, os.path.dirname(os.path.abspath(__file__)))
import mb_common  # noqa: E402

ASSUMPTIONS = [
    "Setup is modelled as OSetup (old connection closed, setup mutex held) / OSetupEnd (old connection Closed, or kill timeout)",
    "a connection reaches Closed only after its Terminate (broker/client.go cleanup order); a *Client calls Setup once",
    "the uniqueness invariant is stated (and proved) for histories without kill timeout and without backend Close: Terminate removes the "
    "active-clients entry by client id, so a newcomer whose Setup failed removes the old connection's entry "
    "(C13_unique_state_kill_timeout_refuted / _close_refuted; reproduced on the real backend); the invariant is also evaluated on every "
    "observed state of the implementation in such histories",
]


def run(ck):
    mb_common.run_mb(ck, {"unique", "handover"}, box_clauses={"delivery"})
