"""C15 — per-publisher message order is preserved end to end, including retransmissions."""
import os, sys
sys.path.insert(0, os.path.dirname(os.path.abspath(__file__)))
import _sys, _bc

ASSUMPTIONS = _bc.ASSUMPTIONS + [
    "end-to-end order is the composition of per-stage order theorems (processor, backend queues, dequeuer, store listing, client, service); "
    "the whole-broker runs check the composition on sampled schedules",
]

CLAUSES = {"c15_in_order", "c15_release_intact", "c15_resend_order", "c15_dequeue_order", "c15_resend_first",
           "c15_forward_link", "c15_arrival_link"}  # the last two: Broker/EndToEnd.v, hypotheses of C15_e2e_order_clauses


def run(ck):
    ck.coq()
    ex = _sys.run_sys(ck, "c15")
    sys_eval = ck.stats.get("direct_clauses_evaluated", 0)
    sys_scn = ck.stats.get("scenarios", 0)
    if ck.build_harness("brokerconn"):
        os.environ["BC_FAMILY"] = "c20,c16,c12,c15" if ck.tier == "quick" else "all"  # c15: resume with more stored packets than window slots (seed C15-11)
        path, _ = ck.harness("bc")
        lines = ck.model("brokerconn", "bc", path)
        traces = {}
        for l in open(path).read().splitlines():
            f = l.split(" ", 2)
            if f[0] in ("scn", "ev", "end") and len(f) >= 2:
                traces.setdefault(f[1], []).append(l)
        diffs = [l for l in lines if l.startswith("diff ")]
        for l in lines:
            f = l.split()
            if l.startswith("propfail ") and f[2] in CLAUSES:
                ck.fail_input(f[2], l, traces.get(f[1], []))
        if diffs and not ck.violations:
            ck.fail_unwitnessed("correspondence coq/Broker/Conn.v ~ broker/client.go: %d observed traces rejected" % len(diffs), diffs[:5])
    # session stage: PacketStore.All lists in first-save order (exact order compared with Session/Store.v)
    if ck.build_harness("session"):
        tpath, _ = ck.harness("c18", out_name="c18_for_c15.txt")
        tlines = ck.model("session", "c15store", tpath)
        hist = {}
        for l in open(tpath).read().splitlines():
            if l.startswith("hist "):
                hist[l.split(" ", 2)[1]] = l
        for l in tlines:
            if l.startswith("propfail hist ") or l.startswith("diff hist "):
                ck.fail_input("store_order", l, [hist.get(l.split()[2], ""), l])
    # service stage: commands are dispatched first-in first-out (client.Service, monitor Client/Service.v)
    if ck.build_harness("service"):
        # only the families that exercise the command queue order
        sel = os.path.join(ck.work, "c15_service_families.txt")
        open(sel, "w").write("family=b-dispatch family=conc- family=s1- family=s2- family=s4- family=rand-\n")
        spath, _ = ck.harness("c17", out_name="c17_for_c15.txt", extra=["-replay", sel])
        slines = ck.model("service", "c17", spath)
        sex = open(spath).read().splitlines()
        per = {}
        for l in sex:
            w = l.split(" ", 2)
            if len(w) >= 2 and w[0] in ("scn", "ev", "peer", "futfinal", "end"):
                per.setdefault(w[1], []).append(l)
        for l in sex:
            if l.startswith("direct fifo") and " FAIL" in l:
                ck.fail_input("service_fifo", l, per.get(l.split()[2], [])[:300] + [l])
        for l in slines:
            w = l.split()
            if l.startswith("propfail ") and w[2] == "fifo":
                ck.fail_input("service_fifo", l, per.get(w[1], [])[:300] + [l])
    # client stage: a message callback is always for the packet just received / the stored message just released
    if ck.build_harness("client"):
        cpath, _ = ck.harness("c15", out_name="client_c15.txt")
        clines = ck.model("client", "c15", cpath)
        cscn = {}
        for l in open(cpath).read().splitlines():
            w = l.split(" ", 2)
            if len(w) >= 2 and w[0] in ("scn", "ev", "mark", "end"):
                cscn.setdefault(w[1], []).append(l)
        cdiffs = []
        for l in clines:
            w = l.split()
            if l.startswith("propfail ") and len(w) >= 3 and w[2] in ("client_in_order", "resend_before_new"):
                ck.fail_input(w[2], l, cscn.get(w[1], []) + [l])
            elif l.startswith("diff "):
                cdiffs.append(l)
        if cdiffs and not ck.violations:
            ck.fail_unwitnessed("correspondence Client/Client.v ~ client.Client: %d observed traces rejected" % len(cdiffs),
                                sum((cscn.get(l.split()[1], []) + [l] for l in cdiffs[:3]), []))
    # transport stage: on one connection the wire carries the packets in the order in which Send accepted them, whatever their
    # sizes and whether they were buffered or flushed (packet.Encoder / mercury writer / BaseConn against Stream/EncStream.v,
    # Transport/BaseConn.v; clauses c03_wire_is_concat, c03_flushed_after) — seed C15-10: a large PUBLISH overtaking buffered small ones
    if ck.build_harness("stream"):
        os.environ["STREAM_FAMILY"] = "enc"
        try:
            wpath, _ = ck.harness("c03", out_name="stream_for_c15.txt")
        finally:
            os.environ.pop("STREAM_FAMILY", None)
        wlines = ck.model("stream", "c03", wpath)
        wex = open(wpath).read().splitlines()
        wcases = {}
        for l in wex:
            w = l.split(" ", 2)
            if len(w) >= 2 and w[0] in ("case", "impl"):
                wcases.setdefault(w[1], []).append(l)
        for l in wex:
            w = l.split()
            if l.startswith("direct ") and " FAIL " in l and w[1] in ("c03_wire_is_concat", "c03_flushed_after"):
                ck.fail_input("wire_order", l, wcases.get(w[2], []) + [l])
        for l in wlines:
            w = l.split()
            if l.startswith("propfail ") and len(w) >= 3 and w[2] in ("c03_wire_is_concat", "c03_flushed_after"):
                ck.fail_input("wire_order", l, wcases.get(w[1], []) + [l])
    # backend stage, directly: Dequeue calls made by a connection that is already dying keep the order of the session's stored queue
    # across the resume (go/cmd/backend mbdeq; seed C15-9 was caught by the whole-broker runs only by chance)
    if ck.build_harness("backend"):
        dpath, _ = ck.harness("mbdeq", out_name="mbdeq_for_c15.txt")
        for l in open(dpath).read().splitlines():
            if l.startswith("direct queue_order_across_death") and " FAIL " in l:
                ck.fail_input("queue_order_across_death", l, [l])
    if ck.tier == "thorough":
        ck.coqchk(["GM.Props.C15"])
    ck.evaluations = sys_eval + ck.stats.get("model_cases", 0)
    ck.distinct = sys_scn + ck.stats.get("model_distinct", 0)
    if ex:
        ck.samples = [l for l in ex if l.startswith("direct ")][:4] + ck.samples[:3]
    ck.rule = ("whole broker (go/cmd/system c15): 1..8 publishers sending numbered messages at each QoS to overlapping topics, 1..4 subscribers with differing "
               "granted QoS, windows 1,2,3,5,7,10, one subscriber cut with exactly 2..window messages unacknowledged (1 for window 1) and resumed: per "
               "(publisher, QoS, delivery QoS) sequence numbers increase (order), retransmitted ids keep their original order and include everything "
               "unacknowledged (resend_order), no new PUBLISH before the last retransmission (resend_first), no QoS 2 message offered twice as new; "
               "gated resume with a PUBREL and PUBLISHes in flight, a free window slot and a backlog while Restore is held back; the same with more unacknowledged "
               "deliveries than the resuming connection has window slots (window lowered 3->1, 4->2, 5->3 while the subscriber is away; a PUBACK sent twice at window 2 and 3); packet ids wrapping "
               "65535->1 between unacknowledged deliveries; a takeover while the old connection's dequeuer holds a dequeued, not yet stored message with two more queued "
               "(arrival order at the newcomer, resend order after a further cut); a publisher cut and resuming with unacknowledged QoS 1/2 publishes (publisher_resume); a "
               "backend that is slow with a publisher's first message (log_publish_serial, order); a backlogged subscriber; back-pressure bursts "
               "(in_order, progress); real client.Service publishers and client.Client subscribers around the broker (order_e2e); on every backend "
               "log: log_restore_first; plus clauses c15_in_order, c15_release_intact, c15_resend_order, c15_dequeue_order, c15_resend_first on "
               "broker-connection traces (family c15: a session resumed with more stored outgoing packets than the new connection has window slots - "
               "window lowered between two connections to 1..3 with 1..3 packets beyond it, QoS 1 / 2 / mixed, PUBREL states; stray and duplicate "
               "acknowledgements at a constant window of 2..3 - everything listed is re-sent in listing order before Restore); plus the fifo clause of the service monitor on the service scenarios (client.Service command queue); plus "
               "the client_in_order scanner on client traces (bursts of PUBLISH/PUBREL handed over at once, callback errors)")
