"""Shared by C07, C08, C12, C16, C20: broker-connection traces against coq/Broker/Conn.v and ConnSpec.v."""
import os

ASSUMPTIONS = [
    "goroutines of broker.Client interact only through the Conn, Session and Backend interfaces, channels and atomics, "
    "so the recorded interface crossings (one mutex-protected log) are the property-relevant steps",
    "blocking on a token channel is invisible: the model takes the token at the coroutine's next recorded event",
    "Go runtime (scheduler, channels, select, sync.Once, tomb) behaves as modelled",
    "scenario families are finite samples of the quantifier; the theorems, not the scenarios, cover all interleavings and failure points",
]


def run_bc(ck, family, clauses):
    """family: scenario family generated for this property; clauses: trace clauses this property owns"""
    ck.coq()
    if not ck.build_harness("brokerconn"):
        return
    os.environ["BC_FAMILY"] = "all" if ck.replay else family
    extra = ["-replay", ck.replay] if ck.replay else []
    path, _ = ck.harness("bc", extra=extra)
    lines = ck.model("brokerconn", "bc", path)
    ex = open(path).read().splitlines()
    traces = {}
    for l in ex:
        f = l.split(" ", 2)
        if f[0] in ("scn", "ev", "end") and len(f) >= 2:
            traces.setdefault(f[1], []).append(l)
    diffs = []
    for l in lines:
        f = l.split()
        if l.startswith("propfail ") and f[2] in clauses:
            ck.fail_input(f[2], l, traces.get(f[1], []))
        elif l.startswith("diff "):
            diffs.append((f[1], l))
    ndirect = 0
    for l in ex:
        if l.startswith("direct "):
            ndirect += 1
        if l.startswith("direct ") and " FAIL " in l:
            # clauses the harness evaluates itself: `direct <clause> scn=<n> ok|FAIL ...` (liveness watchdog, c16_drained,
            # c12_keepalive_armed, c12_keepalive_expiry)
            k = l.split("scn=")[1].split()[0] if "scn=" in l else ""
            ck.fail_input(l.split()[1], l, traces.get(k, []) + [l])
    ck.extra["direct_clauses_evaluated_bc"] = ndirect
    if diffs and not ck.violations:
        rl = []
        for k, l in diffs[:3]:
            rl += traces.get(k, []) + [l]
        ck.fail_unwitnessed("correspondence coq/Broker/Conn.v ~ broker/client.go: %d observed traces rejected by the model, "
                            "no clause of this property fails on any observed trace" % len(diffs), rl)
    if ck.tier == "thorough" and not ck.replay:
        ck.coqchk(["GM.Props." + ck.pid])
    ck.evaluations = ck.stats.get("model_cases", 0)
    ck.distinct = ck.stats.get("model_distinct", 0)
    ck.extra["events_checked"] = ck.stats.get("model_events", 0)
    ck.extra["traces_validated_against_impl"] = ck.stats.get("model_cases", 0) - len(diffs)
    ck.rule = ("scenario family %s run against the real broker.Client with recording/fault-injecting Conn, Session and scripted "
               "Backend; every observed trace must be accepted by the extracted monitor (Conn.step) and satisfy the extracted "
               "clauses %s; distinct_nontrivial = distinct event-kind sequences longer than 6 events" % (family, ", ".join(sorted(clauses))))
