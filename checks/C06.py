"""C06 — broker delivers to exactly the matching subscribers: once, intact, QoS-capped (MemoryBackend)."""
import os
import sys
sys.path.insert(0, os.path.dirname(os.path.abspath(__file__)))
import mb_common  # noqa: E402

ASSUMPTIONS = [
    "sync.Mutex makes Setup/Subscribe/Publish/Terminate atomic; Unsubscribe and Dequeue (no mutex in the code) are modelled as atomic steps",
    "a Publish that waits for room in another online session's queue is an un-enabled step (RBlocked); its partial progress is not modelled",
    "Go channels are bounded FIFO queues; select with several ready cases is an explicit oracle argument of the model",
    "published topic names contain no '#' level (clauses are vacuous otherwise); '$'-topics not special",
]


def run(ck):
    mb_common.run_mb(ck, {"targets", "qos", "resub", "unsub"}, box_clauses={"delivery", "qos"})
