"""C06 — broker delivers to exactly the matching subscribers: once, intact, QoS-capped (MemoryBackend)."""
import os
import sys
sys.path.insert(0, os.path.dirname(os.path.abspath(__file__)))
import mb_common  # noqa: E402

ASSUMPTIONS = [
    "sync.Mutex makes Setup/Subscribe/Publish/Terminate atomic; Unsubscribe and Dequeue (no mutex in the code) are modelled as atomic steps",
    "a Publish that waits for room in another online session's queue is an un-enabled step (RBlocked); its partial progress is not modelled",
    "Go channels are bounded FIFO queues; select with several ready cases is an explicit oracle argument of the model",
    "published topic names contain no '#' level (clauses are vacuous otherwise); '$'-topics not special",
]


def run(ck):
    mb_common.run_mb(ck, {"targets", "queue_full_atomic", "qos", "resub", "unsub", "delivery", "frame", "offline_queue", "closing_accepted"}, box_clauses={"delivery", "qos"}, conc={"conc_delivery"})
    # the subscriber's connection forwards every dequeued message as exactly one PUBLISH, intact (clause
    # c06_forward_intact of the connection monitor, Props/C06_conn.v), on broker-connection traces
    import _bc
    ev, di, rule = ck.evaluations, ck.distinct, ck.rule
    if ck.build_harness("brokerconn"):
        os.environ["BC_FAMILY"] = "c16,c20" if ck.tier == "quick" else "c16,c20,c08"
        path, _ = ck.harness("bc")
        lines = ck.model("brokerconn", "bc", path)
        traces = {}
        for l in open(path).read().splitlines():
            f = l.split(" ", 2)
            if f[0] in ("scn", "ev", "end") and len(f) >= 2:
                traces.setdefault(f[1], []).append(l)
        for l in lines:
            f = l.split()
            if l.startswith("propfail ") and f[2] in ("c06_forward_intact", "c15_forward_link"):
                ck.fail_input(f[2], l, traces.get(f[1], []))
    ck.rule = rule + "; plus clause c06_forward_intact on broker-connection traces (reactive-subscriber and request families)"
    # whole broker: a publish (and a will) into the publisher's own full queue is refused before anything is changed /
    # skips only the dying publisher's own session (go/cmd/system c06)
    import _sys
    ev, di, rule = ck.evaluations, ck.distinct, ck.rule
    ex = _sys.run_sys(ck, "c06")
    ck.evaluations = ev + ck.stats.get("direct_clauses_evaluated", 0)
    ck.distinct = di + ck.stats.get("scenarios", 0)
    ck.rule = rule + ("; plus whole-broker scenarios: a client subscribed to what it publishes with its own queue full (window 1, queue 2) among six "
                      "clean and persistent observers: the refused publish reaches all of them or none (all_or_nothing), its will reaches all (will_delivered)")
