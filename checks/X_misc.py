"""X_misc — smaller pieces of gomqtt inside the model (component `misc`):
keep-alive arithmetic of broker.Client, life cycle of broker.Engine, scheme dispatch of
transport.Dial/Launch, the small total functions of package packet."""

import os

ASSUMPTIONS = [
    "float64(int64) rounds to nearest, ties to even (IEEE 754), the product with 0.5 is exact and the conversion back truncates; "
    "int64 addition wraps (modelled; validated through the real broker with MaximumKeepAlive values up to math.MaxInt64)",
    "sync.Mutex makes Engine.Handle and Engine.Close atomic steps; tomb.Kill/Wait behave as 'mark dying' / 'wait for the accept loops'",
    "net/url (ParseRequestURI lower-cases the scheme and rejects malformed ones), net, crypto/tls, gorilla/websocket are trusted; "
    "the dispatch model starts from the scheme text",
    "fmt's %q / %x / %d / %t verbs are modelled (quote_go, hex) and validated by the tie only",
]

# sub-command -> (prefixes of its case lines, name of the correspondence)
PARTS = [
    ("keepalive", ("ka ", "tok "), "Misc/KeepAlive.v ~ broker.Client.processConnect"),
    ("engine", ("eng ",), "Misc/Engine.v ~ broker.Engine"),
    ("dispatch", ("dial ", "launch ", "port "), "Misc/Dispatch.v ~ transport.Dialer.Dial / Launcher.Launch"),
    ("pkt", ("pk ", "msg ", "copy "), "Misc/PktMisc.v ~ package packet"),
]


def case_line(ex_index, part, ident):
    """the exchange line of the case a propfail/diff line talks about"""
    return ex_index.get((part, ident), "")


def tie_tables(ck, ex):
    """generated Tie/Observed_X_misc.v: forallb agrees table = true by vm_compute, plus coverage of the whole domain"""
    def codes(hx):
        return "[" + "; ".join(str(int(hx[i:i + 2], 16)) for i in range(0, len(hx), 2)) + "]" if hx != "-" else "[]"
    rows = {"type": [], "qos": [], "cc": [], "id": []}
    for l in ex:
        f = l.split()
        if len(f) >= 5 and f[0] == "pk" and f[1] in rows:
            b = "true" if f[4] == "1" else "false"
            if f[1] in ("type", "cc"):
                rows[f[1]].append("(%s, %s, %s)" % (f[2], b, codes(f[5])))
            else:
                rows[f[1]].append("(%s, %s)" % (f[2], b))
    v = ("From Coq Require Import List NArith Bool.\nFrom Coq.Strings Require Import Byte.\n"
         "From GM Require Import Codec.Packet Misc.PktMisc.\nImport ListNotations.\nOpen Scope N_scope.\nOpen Scope bool_scope.\n"
         "Definition codes (s : list byte) : list N := map Byte.to_N s.\n"
         "Fixpoint leqb (a b : list N) : bool := match a, b with [], [] => true | x :: a', y :: b' => (x =? y) && leqb a' b' | _, _ => false end.\n"
         "Definition agrees_type (r : N * bool * list N) : bool := let '(n, v, s) := r in Bool.eqb (type_valid n) v && leqb (codes (type_string n)) s.\n"
         "Definition agrees_cc (r : N * bool * list N) : bool := let '(n, v, s) := r in Bool.eqb (connack_valid n) v && leqb (codes (connack_string n)) s.\n"
         "Definition agrees_qos (r : N * bool) : bool := let '(n, v) := r in Bool.eqb (qos_successful n) v.\n"
         "Definition agrees_id (r : N * bool) : bool := let '(n, v) := r in Bool.eqb (id_valid n) v.\n"
         "Fixpoint from {A} (key : A -> N) (s : N) (l : list A) : bool := match l with [] => true | x :: l' => (key x =? s) && from key (s + 1) l' end.\n")
    v += "Definition obs_type : list (N * bool * list N) := [%s].\n" % "; ".join(rows["type"])
    v += "Definition obs_cc : list (N * bool * list N) := [%s].\n" % "; ".join(rows["cc"])
    v += "Definition obs_qos : list (N * bool) := [%s].\n" % "; ".join(rows["qos"])
    chunks = [rows["id"][i:i + 1024] for i in range(0, len(rows["id"]), 1024)]
    for i, ch in enumerate(chunks):
        v += "Definition obs_id%d : list (N * bool) := [%s].\n" % (i, "; ".join(ch))
    v += "Definition obs_id := [%s].\n" % "; ".join("obs_id%d" % i for i in range(len(chunks)))
    v += ("Lemma tie_type : forallb agrees_type obs_type = true.\nProof. vm_compute; reflexivity. Qed.\n"
          "Lemma tie_cc : forallb agrees_cc obs_cc = true.\nProof. vm_compute; reflexivity. Qed.\n"
          "Lemma tie_qos : forallb agrees_qos obs_qos = true.\nProof. vm_compute; reflexivity. Qed.\n"
          "Lemma tie_id : forallb (forallb agrees_id) obs_id = true.\nProof. vm_compute; reflexivity. Qed.\n"
          "Lemma covers_bytes : from (fun r => fst (fst r)) 0 obs_type && (N.of_nat (length obs_type) =? 256) && "
          "from (fun r => fst (fst r)) 0 obs_cc && (N.of_nat (length obs_cc) =? 256) && "
          "from fst 0 obs_qos && (N.of_nat (length obs_qos) =? 256) = true.\nProof. vm_compute; reflexivity. Qed.\n")
    v += "Lemma covers_ids : %s && (N.of_nat (length obs_id) =? 64) = true.\nProof. vm_compute; reflexivity. Qed.\n" % " && ".join(
        "from fst %d obs_id%d && (N.of_nat (length obs_id%d) =? 1024)" % (i * 1024, i, i) for i in range(len(chunks)))
    ok, _ = ck.tie_v("Observed_X_misc", v)
    ck.extra["in_kernel_table_rows"] = sum(len(r) for r in rows.values())
    return ok


def run(ck):
    pkt_ex = []
    ck.coq()
    if not ck.build_harness("misc"):
        return
    extra = ["-replay", ck.replay] if ck.replay else []
    total = 0
    observations = []
    for cmd, prefixes, corr in PARTS:
        path, _ = ck.harness(cmd, extra=extra)
        lines = ck.model("misc", cmd, path)
        ex = open(path).read().splitlines()
        if cmd == "engine" and any(l.startswith(("propfail ", "diff ")) for l in lines):
            # the engine traces are cut into quiescent phases by a timer; a trace the monitor or a clause rejects is
            # run again with a 25 times longer quiet period before it counts (a late goroutine, not the engine)
            ids = set(l.split()[2].split(",")[1] for l in lines if l.startswith(("propfail ", "diff ")))
            again = os.path.join(ck.work, "engine_again.txt")
            open(again, "w").write("\n".join(l for l in ex if l.startswith("eng ") and l.split()[1] in ids) + "\n")
            os.environ["MISC_QUIET_MS"] = "40"
            try:
                path2, _ = ck.harness("engine", out_name="engine_slow.txt", extra=["-replay", again])
            finally:
                del os.environ["MISC_QUIET_MS"]
            ck.stats["eng_rerun_slow"] = len(ids)
            lines = ck.model("misc", "engine", path2)
            ex = open(path2).read().splitlines()
        # index the case lines by the identifier the model runner prints (fields joined by ',')
        by_id = {}
        for l in ex:
            if l.startswith(prefixes):
                head = l.split(" | ")[0].split()
                by_id[",".join(head[1:])] = l
                by_id[head[0] + "," + ",".join(head[1:])] = l
                by_id[head[0] + "," + head[1]] = l
        direct_fail = [l for l in ex if l.startswith("direct ") and " FAIL " in l]
        for l in direct_fail:
            f = l.split()
            ck.fail_input(f[1], l, [by_id.get(f[2], ""), l])
        observations += [l[4:] for l in ex if l.startswith("obs ")]
        tie_only = []
        for l in lines:
            if l.startswith("propfail "):
                f = l.split()
                ck.fail_input(f[1], l, [by_id.get(f[2], ""), l])
            elif l.startswith("diff "):
                tie_only.append(l)
        if tie_only and not direct_fail and not any(l.startswith("propfail ") for l in lines):
            rl = []
            for l in tie_only[:20]:
                f = l.split()
                rl += [by_id.get(f[2], ""), l]
            ck.fail_unwitnessed("correspondence %s (%d disagreeing cases)" % (corr, len(tie_only)), rl)
        total += sum(1 for l in ex if l.startswith("direct "))
        if cmd == "pkt":
            pkt_ex = ex
    if ck.tier == "thorough" and not ck.replay:
        # T-exh in the kernel: the complete observed tables of Type, QOS, ConnackCode (256 rows each) and ID (65536 rows)
        ok = tie_tables(ck, pkt_ex)
        ck.extra["exhaustive"] = bool(ok)
        if not ok and not ck.violations:
            ck.fail_unwitnessed("Tie/Observed_X_misc.v (in-kernel tables of packet.Type / QOS / ConnackCode / ID)")
        ck.coqchk(["GM.Props.X_misc"])
    if observations:
        ck.extra["observations"] = observations[:20]
    ck.evaluations = ck.stats.get("model_cases", 0) + total
    ck.distinct = ck.stats.get("model_distinct", 0)
    ck.rule = ("keepalive: every keep alive 0..65535 x %s MaximumKeepAlive settings (exhaustive), 16 boundary/random keep-alive values x %s further "
               "settings from math.MinInt64 to math.MaxInt64 (incl. 2^53-1 .. 2^53+5 where float64 starts rounding), %s token-default combinations, "
               "each through broker.NewClient with a stub backend and a recording conn; %s token-count scenarios. "
               "engine: %s operation sequences (Handle / Accept / server accept results / Close) on a real broker.Engine with recording conns and servers. "
               "dispatch: %s scheme spellings x Dial to four live loopback servers (tcp, tls, ws, wss), Launch of each, default ports with and without configuration. "
               "packet: all 256 values of Type, QOS, ConnackCode (Valid/String/Successful), all 65536 ids, %s messages (Copy/String). "
               "distinct_nontrivial = distinct inputs over all four parts"
               % (ck.stats.get("ka_exhaustive_settings"), ck.stats.get("ka_boundary_settings"), ck.stats.get("ka_token_cases"),
                  ck.stats.get("ka_token_scenarios"), ck.stats.get("eng_sequences"), ck.stats.get("dispatch_schemes"),
                  ck.stats.get("pkt_messages")))
