"""C07 — broker connection (broker/client.go): see coq/Broker/Conn.v, ConnSpec.v, coq/Props/C07.v."""
import os, sys
sys.path.insert(0, os.path.dirname(os.path.abspath(__file__)))
import _bc

ASSUMPTIONS = _bc.ASSUMPTIONS


def run(ck):
    _bc.run_bc(ck, "c07", set("c20_responses c07_pubrec_after_store c07_no_publish_after_release c07_single_ack c07_pubrel_answered c20_tokens "
                           # added by the audit (audit/C07.md): release only inside the acknowledgement, nothing dropped, the message handed on is the stored one, one hand-over per packet
                           "c07_release_in_ack c20_acted_on c15_release_intact c15_in_order".split()))
