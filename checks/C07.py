"""C07 — broker connection (broker/client.go): see coq/Broker/Conn.v, ConnSpec.v, coq/Props/C07.v."""
import os, sys
sys.path.insert(0, os.path.dirname(os.path.abspath(__file__)))
import _bc, _sys, mb_common

ASSUMPTIONS = _bc.ASSUMPTIONS


def run(ck):
    _bc.run_bc(ck, "c07", set("c20_responses c07_pubrec_after_store c07_no_publish_after_release c07_single_ack c07_pubrel_answered c20_tokens "
                           # added by the audit (audit/C07.md): release only inside the acknowledgement, nothing dropped, the message handed on is the stored one, one hand-over per packet
                           "c07_release_in_ack c20_acted_on c15_release_intact c15_in_order".split()))
    if ck.replay:
        return
    # whole broker, publisher side, with the real MemoryBackend sessions (go/cmd/system c07): what Setup / reuse() does to the
    # publisher's Incoming store on resume is not visible to the scripted session of the connection-level check
    ev, di, rule = ck.evaluations, ck.distinct, ck.rule
    ex = _sys.run_sys(ck, "c07")
    ck.evaluations = ev + ck.stats.get("direct_clauses_evaluated", 0)
    ck.distinct = di + ck.stats.get("scenarios", 0)
    ck.rule = rule + ("; plus whole broker (Engine + MemoryBackend over TCP loopback, go/cmd/system c07): a persistent publisher cut — or displaced by a second "
                      "connection with its id — at each point of the QoS 2 handshake (PUBLISH sent, PUBREC not read, PUBREC read, PUBREL sent, PUBCOMP not read) and of "
                      "the QoS 1 handshake, with one and with four ids in flight, resumes and retransmits per protocol: qos2_exactly_once (subscriber and accepted "
                      "Publish calls on the backend log), qos1_at_least_once, pubrel_answered, session_present, order, publisher_serves (probe); clean reconnect "
                      "(clean_discards); a PUBREL's Publish held past a 300 ms kill timeout while the publisher is cut, resumes and retransmits "
                      "(whatever becomes of the second connection, handed on exactly once); backend held at the entry of Publish: no PUBACK / PUBCOMP / delivery before it accepts (ack_after_accept)")
    if ex:
        ck.samples = ck.samples[:4] + [l for l in ex if l.startswith("direct ")][:3]
    # backend stage: "acknowledged only after the backend has accepted" and "handed on exactly once" rest on Backend.Publish being
    # all-or-nothing — a Publish that returns an error (the publisher's own matching queue is full) must not have delivered to anybody,
    # otherwise the unacknowledged publisher's retransmitted PUBLISH / PUBREL delivers a second time (Props/C06.v C06_queue_full_atomic;
    # seed C07-11).  The real MemoryBackend, operation by operation against Broker/Backend.v, families ownfull and random only.
    if ck.build_harness("backend"):
        os.environ["MB_FAMILY"] = "ownfull,random"
        try:
            bpath, _ = ck.harness("mb", out_name="mb_for_c07.txt", timeout=3000)
        finally:
            os.environ.pop("MB_FAMILY", None)
        blines = ck.model("backend", "mb", bpath)
        bex = open(bpath).read().splitlines()
        nb = 0
        for l in blines:
            f = l.split()
            if l.startswith("propfail ") and f[2] == "queue_full_atomic":
                ck.fail_input("backend_refusal_atomic", l, mb_common.history_lines(bex, f[1]) if "/" in f[1] else [l])
            nb += 1
        ck.rule += "; plus the backend stage (real MemoryBackend step by step, families ownfull and random): a refused Publish has delivered to nobody (queue_full_atomic)"
