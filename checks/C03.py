"""C03 — stream framing (packet/stream.go, transport/base_conn.go, websocket_conn.go)."""
import os

ASSUMPTIONS = [
    "bufio.Reader is modelled by its contract (a byte stream; Peek(n<=5)/ReadFull pull from the source until enough bytes are buffered "
    "or it ends); its 4096-byte capacity is not modelled — the tie runs the real one across that boundary and compares bytes pulled",
    "bufio.Writer is modelled exactly (4096-byte buffer, sticky error); mercury.Writer line by line; time.AfterFunc firing is an event "
    "of the model, sampled in Go (cases in which the timer fired outside a wait window are skipped and counted)",
    "a carrier Write either takes all bytes or fails having taken none; the source reports its end (EOF or error) every time it is asked",
    "gorilla/websocket message readers return (n>0, nil) while data remains and (0, io.EOF) afterwards (WsStream.v); packet contents are "
    "C01/C02's business: Decode's verdict on each frame is taken from the implementation (oracle lines), the tie checks framing and errors",
    "C03_frames / C03_truncation / C03_limit_refuses are proved over the codec interface (hypotheses detect_enc, decode_enc in "
    "Stream/FramesProofs.v), to be discharged by the codec theorems of C01/C02; Props/C03.v instantiates them with a small concrete codec",
]


def classify(ck, path, lines, what):
    ex = open(path).read().splitlines()
    cases, impls = {}, {}
    for l in ex:
        if l.startswith("case "):
            cases[l.split(" ", 2)[1]] = l
        elif l.startswith("impl "):
            impls[l.split(" ", 2)[1]] = l
    witnessed = False
    for l in ex:
        if l.startswith("direct ") and " FAIL " in l:
            f = l.split()
            ck.fail_input(f[1], l, [cases.get(f[2], ""), impls.get(f[2], ""), l])
            witnessed = True
    # C03_chunking_irrelevant evaluated on the implementation alone: one stream, one limit, one
    # ending => one outcome, whatever the cuts
    groups = {}
    for k, c in cases.items():
        f = c.split()
        if len(f) > 2 and f[2] == "dec" and k in impls:
            kv = dict(x.split("=", 1) for x in f[3:])
            ob = dict(x.split("=", 1) for x in impls[k].split()[2:])
            key = (kv["stream"], kv["lim"], kv["end"])
            out = (ob["pkts"], ob["err"])
            if key in groups and groups[key][0] != out:
                k0 = groups[key][1]
                ck.fail_input("c03_chunking_irrelevant",
                              "same stream, limit and ending, different outcome: cuts=%s -> %s %s | cuts=%s -> %s %s" %
                              (kv["cuts"], ob["pkts"][:80], ob["err"], dict(x.split("=", 1) for x in cases[k0].split()[3:])["cuts"],
                               groups[key][0][0][:80], groups[key][0][1]),
                              [cases[k0], impls[k0], c, impls[k]])
                witnessed = True
            groups.setdefault(key, (out, k))
    ck.stats["chunking_groups"] = len(groups)
    tie = [l for l in lines if l.startswith("diff ") or l.startswith("propfail ")]
    if tie and not witnessed:
        rl = []
        for l in tie[:10]:
            k = l.split()[1]
            rl += [cases.get(k, ""), impls.get(k, ""), l[:2000]]
        ck.fail_unwitnessed("correspondence %s (%d disagreeing cases); first: %s" % (what, len(tie), tie[0][:300]), rl)
    return ex


def run(ck):
    ck.coq()
    if not ck.build_harness("stream"):
        return
    extra = ["-replay", os.path.abspath(ck.replay)] if ck.replay else []
    path, _ = ck.harness("c03", extra=extra)
    lines = ck.model("stream", "c03", path)
    classify(ck, path, lines, "Stream/Stream.v, EncStream.v, Transport/BaseConn.v ~ packet.Decoder/Encoder, mercury.Writer, transport.BaseConn")
    if ck.tier == "thorough" and not ck.replay:
        ck.coqchk(["GM.Props.C03"])
    skipped = ck.stats.get("model_skipped", 0)
    ck.evaluations = (ck.stats.get("model_cases", 0) + ck.stats.get("direct_frames", 0) + ck.stats.get("direct_wire", 0) +
                      ck.stats.get("direct_truncation", 0) + ck.stats.get("direct_limit_first", 0) + ck.stats.get("direct_timer_flush", 0) +
                      ck.stats.get("direct_flushed_after", 0) + ck.stats.get("loopback_runs", 0))
    ck.distinct = ck.stats.get("model_distinct", 0)
    ck.rule = ("decoder: streams of 1..6 packets, all 14 types leading, EVERY 2- and 3-way split of streams up to 64 bytes, truncation at every "
               "prefix (one chunk / byte-at-a-time / chunks 1..3, EOF and failing source), packets of 4090..4101, 8191..8193, 12288 bytes "
               "under chunk sizes 1..{1,2,3,7,64,1000,4091,4096,4097,10000}, limits L-1/L/L+1 at every varint boundary, headers announcing "
               "more than the limit, every type nibble, 1..7 continuation bytes, non-minimal varints, valid prefix + noise; encoder and "
               "BaseConn: random scripts of sync/async writes (packets up to 9000 bytes), Flush, timer waits, carrier failure at the k-th write, "
               "delay switches, receives over fragmented input, Close, deadline failures, a table of packets of 4000..20000 bytes written sync/async "
               "after pending async writes; real carriers in BOTH tiers: WebSocket loopback (transport.Launch ws://127.0.0.1:0 + raw gorilla client: "
               "one byte per message, packets spanning messages, several packets per message, 9 KB and 20 KB messages, messages written as ~32-byte "
               "frames, a text message, close frame vs dropped connection) and TCP loopback, thorough adds 240 random loopback runs. Property clauses "
               "evaluated on the implementation alone (direct lines): packets received == packets sent, truncation => ErrUnexpectedEOF after the "
               "complete packets, limit refusal within 5 bytes, wire == concatenation of accepted encodings (prefix of it under failures), "
               "everything on the wire once the flush delay has elapsed, nothing left behind by a flushing operation (c03_flushed_after), no packet above the "
               "limit handed out, the limit per packet whatever the grouping into WebSocket messages, a carrier pair that cannot be established is a "
               "verdict (c03_carrier_available), same outcome for every chunking of one stream; see audit/C03.md. "
               "distinct_nontrivial = distinct (kind, terminal error, limit on/off, packets, chunk-size class, leading type) resp. "
               "(operation sequence, result sequence) classes on the model side; %d cases skipped because the flush timer fired outside a wait window"
               % skipped)
