"""C08 — broker connection (broker/client.go): see coq/Broker/Conn.v, ConnSpec.v, coq/Props/C08.v."""
import os, sys
sys.path.insert(0, os.path.dirname(os.path.abspath(__file__)))
import _bc, _sys

ASSUMPTIONS = _bc.ASSUMPTIONS


def run(ck):
    # whole broker with the real MemoryBackend: offline queueing, session-present, clean discard, repeated cuts
    _sys.run_sys(ck, "c08")
    sys_eval = ck.stats.get("direct_clauses_evaluated", 0)
    _bc.run_bc(ck, "c08", set("c08_store_before_send c08_kept_until_acked c08_resend c08_no_second_new c08_popped_is_saved c08_pubrel_after_store "
                           # added by the audit (audit/C08.md)
                           "c08_deqack_after_store c08_store_replica c20_acted_on c15_resend_order c15_resend_first c08_ledger".split()))
    ck.evaluations += sys_eval
    ck.rule += ("; plus whole-broker scenarios (real MemoryBackend over TCP): a persistent subscriber withholding 1..window+2 acknowledgements, cut and "
                "resumed 1..3 times (also during the resend phase), publishes while offline, final clean connect: nothing_lost, qos2_not_twice_new, "
                "session_present, clean_discards; one QoS 2 delivery across two / three connection losses (before PUBREC, before PUBCOMP, also with a second delivery in "
                "flight): the PUBREL is retransmitted, never the PUBLISH again (resend_pubrel); takeover of a live clean / persistent connection by a clean / "
                "persistent one: session-present of the newcomer, then subscribe, offline QoS 1 publish, persistent reconnect (session_present, nothing_lost); ONE SUBSCRIBE with filters granted [1,0] and [2,1,0]: each delivery keeps its "
                "filter's QoS and packet id (qos_kept) and is retransmitted with dup after a cut (nothing_lost)")
