"""C08 — broker connection (broker/client.go): see coq/Broker/Conn.v, ConnSpec.v, coq/Props/C08.v."""
import os, sys
sys.path.insert(0, os.path.dirname(os.path.abspath(__file__)))
import _bc

ASSUMPTIONS = _bc.ASSUMPTIONS


def run(ck):
    _bc.run_bc(ck, "c08", set("c08_store_before_send c08_kept_until_acked c08_resend c08_no_second_new c08_popped_is_saved c08_pubrel_after_store".split()))
