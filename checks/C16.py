"""C16 — broker connection (broker/client.go): see coq/Broker/Conn.v, ConnSpec.v, coq/Props/C16.v."""
import os, sys
sys.path.insert(0, os.path.dirname(os.path.abspath(__file__)))
import _bc, _sys

ASSUMPTIONS = _bc.ASSUMPTIONS


def run(ck):
    _bc.run_bc(ck, "c16", set("c16_bound c16_slots_not_lost c16_quiescent_dequeuing c06_forward_intact c20_acted_on c15_resend_first c08_popped_is_saved c15_forward_link".split()))  # c08_popped_is_saved: "every queued message is eventually delivered" — a message taken from the queue is recorded for (re)delivery before the connection can end (seed C16-10)
    #  # the last three added by the audit (audit/C16.md), with the harness-side clause c16_drained
    if ck.replay:
        return
    ev, di = ck.evaluations, ck.distinct
    rule = ck.rule
    ex = _sys.run_sys(ck, "c16")
    ck.evaluations = ev + ck.stats.get("direct_clauses_evaluated", 0)
    ck.distinct = di + ck.stats.get("scenarios", 0)
    ck.rule = rule + "; plus whole broker back-pressure scenarios (window 1..3, session queue 1..3, bursts larger than both, subscriber acknowledging at once or after a pause): every message arrives, in order, the publisher gets every acknowledgement (progress, in_order, shutdown); bursts filling a window of 2 after idle periods of 1.6 token timeouts, after connect and after a first burst (progress); a subscriber withholding every acknowledgement while 2*window+2 messages are published holds exactly the configured window of distinct deliveries, window 3 on a first / resumed / taken-over connection, window 12 on a resumed one (window_bound)"
    if ex:
        ck.samples = ck.samples[:4] + [l for l in ex if l.startswith("direct ")][:3]
