"""C16 — broker connection (broker/client.go): see coq/Broker/Conn.v, ConnSpec.v, coq/Props/C16.v."""
import os, sys
sys.path.insert(0, os.path.dirname(os.path.abspath(__file__)))
import _bc

ASSUMPTIONS = _bc.ASSUMPTIONS


def run(ck):
    _bc.run_bc(ck, "c16", set("c16_bound c16_slots_not_lost".split()))
