"""C18 — packet ids and packet store (session/)."""

ASSUMPTIONS = [
    "sync.Mutex makes every counter/store method atomic, so a concurrent history is some sequence of the modelled operations",
    "the uint16 field of IDCounter is the whole state of the counter (model state = N below 65536)",
]


def run(ck):
    ck.coq()
    if not ck.build_harness("session"):
        return
    extra = ["-replay", ck.replay] if ck.replay else []
    path, _ = ck.harness("c18", extra=extra)
    lines = ck.model("session", "c18", path)
    ex = open(path).read().splitlines()
    hist = {}
    for l in ex:
        if l.startswith("hist "):
            hist[l.split(" ", 2)[1]] = l
    direct_fail = [l for l in ex if l.startswith("direct ") and " FAIL " in l]
    for l in direct_fail:
        ck.fail_input("store_map" if l.startswith("direct store_map") else "counter_window", l, [l])
    tie_only = []
    for l in lines:
        if l.startswith("propfail hist "):
            k = l.split()[2]
            ck.fail_input("store_map", l, [hist.get(k, ""), l])
        elif l.startswith("propfail conc "):
            ck.fail_input("concurrent_allocation", l, [x for x in ex if x.startswith("conc " + l.split("start=")[1].split()[0] + " ")][:1] + [l])
        elif l.startswith("diff "):
            tie_only.append(l)
    if tie_only and not direct_fail:
        # the implementation deviates from the model but every directly evaluated clause still holds
        ck.fail_unwitnessed("correspondence Session/Ids.v ~ session.IDCounter (%d disagreeing cases)" % len(tie_only),
                            tie_only[:20])
    if ck.tier == "thorough" and not ck.replay:
        # T-exh in the kernel: the complete observed transition table of the counter
        rows = [l.split()[1:4] for l in ex if l.startswith("ctr ")]
        chunks = [rows[i:i + 1024] for i in range(0, len(rows), 1024)]
        v = ("From Coq Require Import List NArith Bool.\nFrom GM Require Import Session.Ids.\nImport ListNotations.\nOpen Scope N_scope.\nOpen Scope bool_scope.\n"
             "Definition agrees (r : N*N*N) : bool := let '(s,a,b) := r in (nth_id s 0 =? a) && (nth_id s 1 =? b).\n")
        for i, ch in enumerate(chunks):
            v += "Definition obs%d : list (N*N*N) := [%s].\n" % (i, "; ".join("(%s,%s,%s)" % tuple(r) for r in ch))
        v += "Definition observed := [%s].\n" % "; ".join("obs%d" % i for i in range(len(chunks)))
        v += ("Lemma tie : forallb (forallb agrees) observed = true.\nProof. vm_compute; reflexivity. Qed.\n"
              "Fixpoint states_from (s : N) (l : list (N*N*N)) : bool := match l with [] => true | (x,_,_) :: l' => (x =? s) && states_from (s+1) l' end.\n")
        v += "Lemma covers_all_states : %s = true.\nProof. vm_compute; reflexivity. Qed.\n" % " && ".join(
            "states_from %d obs%d && (N.of_nat (length obs%d) =? 1024)" % (i * 1024, i, i) for i in range(len(chunks)))
        v += "Lemma chunk_count : N.of_nat (length observed) = 64.\nProof. vm_compute; reflexivity. Qed.\n"
        ok, out = ck.tie_v("Observed_C18", v)
        ck.extra["exhaustive"] = bool(ok)
        ck.extra["in_kernel_table_rows"] = len(rows)
        if not ok and not direct_fail:
            ck.fail_unwitnessed("Tie/Observed_C18.v (in-kernel table of all 65536 counter states)")
        ck.coqchk(["GM.Props.C18"])
    ck.evaluations = ck.stats.get("model_cases", 0) + ck.stats.get("direct_windows", 0)
    ck.distinct = ck.stats.get("model_distinct", 0)
    ck.rule = ("all 65536 counter states (two NextID each) compared with nth_id; 25 full 65535-allocation windows checked directly; "
               "store histories: every sequence up to depth %s over a %s-operation alphabet (ids 1,2 x both directions x save/lookup/delete/all, "
               "reset, next id), every pair over the alphabet with all 14 packet types, seeded random histories of 5..205 operations, "
               "each followed by lookups of ids 1..3 and listings in both directions; distinct_nontrivial = distinct operation sequences "
               "containing at least one save" % (ck.stats.get("exhaustive_depth"), ck.stats.get("alphabet")))
