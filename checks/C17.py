"""C17 — Service survives any failure sequence: reconnects, resubscribes, keeps futures (client/service.go)."""
import os

ASSUMPTIONS = [
    "timing is not modelled: backoff durations, ConnectTimeout/ResubscribeTimeout/QueueTimeout/DisconnectTimeout expiries are events of the "
    "monitor that may happen whenever the code waits on them; real time is sampled by the tie only (backoff 1-4 ms, Connect/Resubscribe "
    "timeout 1.5 s, QueueTimeout 60 ms / 5 s, DisconnectTimeout 20 ms; the scripted peers answer at once or never, so that a timer does "
    "not race an acknowledgement); if a timeout nevertheless expires on an attempt whose peer is fault free (machine overloaded), the "
    "script's liveness expectations for that scenario are reported as inconclusive (stat inconclusive_slow_machine), its trace is still "
    "checked by the monitor",
    "the client (client.Client) appears through its interface: connect result, call results with the packet id, acknowledgements reaching the "
    "shared future store, error callback, Disconnect/Close returning; its internals are C09/C10's model",
    "sync.Mutex, buffered channels, select and tomb behave as in DESIGN.md 3.2 (a mutex-protected method is one step, a channel is a bounded "
    "FIFO, a receive on a full channel hands the slot to a blocked sender at once)",
    "an error return of a client call that sent nothing is modelled as not touching the future store (the re-check path of "
    "Subscribe/Unsubscribe/Publish stores and removes a future under a fresh id; with restarted packet ids it could cancel an older future "
    "with the same id, cause `replaced`)",
    "liveness clauses (the service reconnects, every future resolves, Stop returns) are checked by the tie's watchdog (15 s per step, normal "
    "steps take milliseconds) and stated in Coq as quiescence safety (C17_stop); no fairness proof",
    "the harness orders API calls made from different goroutines itself (call and return are recorded around the call), except in the "
    "`conc-*` scenarios where they race for the service mutex and only the clauses visible without an order are evaluated",
]


# direct clauses reported under a clause of the property
DIRECT_CLAUSE = {
    "resend_before_dispatch": "fifo",   # a queued command must not overtake the retransmissions of a resumed session
    # the option sweep (go/cmd/service/optsweep.go): the documented meaning of an option value, reported under the clause it serves
    "backoff": "reconnect",             # the pause before a reconnect lies between MinReconnectDelay and MaxReconnectDelay
    "keepalive": "reconnect",           # Config.KeepAlive below the service: answered pings keep the connection, unanswered ones end it
    "disconnect_timeout": "stop",       # Stop waits DisconnectTimeout for pending futures (0 / negative: not at all) and returns
    "resub_off": "resub_set",           # ResubscribeAllSubscriptions=false: no resubscribe request
}

FAMILIES = ["r-", "t-", "basic", "d8-", "d15-", "resub-sorted", "d17-", "d16-", "s5-", "a-start", "s1-", "s2-", "s3-", "s4-", "s6-", "s7", "b-", "b2-",
            "b3-", "b4-", "many-", "large-", "q-", "k-", "o-", "ob-", "od-", "ot-", "or-", "oc-", "ok-", "op-", "oq-", "of-", "rand-", "conc-"]


def run(ck):
    ck.coq()
    if not ck.build_harness("service"):
        return
    extra = ["-replay", ck.replay] if ck.replay else []
    path, hout = ck.harness("c17", extra=extra)
    if any(b.startswith("harness c17 crashed") for b in ck.broken) and not ck.replay:
        # the service panicked the process: nothing was written.  Find a scenario family that does it by itself.
        panic = next((l for l in hout if l.startswith("panic:")), "the harness process died")
        for fam in FAMILIES:
            rp = os.path.join(ck.work, "family.txt")
            open(rp, "w").write("family=%s\n" % fam)
            _, out2 = ck.harness("c17", out_name="family.txt.out", extra=["-replay", rp])
            if any(l.startswith("panic:") or "goroutine " in l for l in out2):
                trace = [l for l in out2 if "gomqtt" in l or l.startswith("panic:")][:12]
                ck.broken = [b for b in ck.broken if not b.startswith("harness c17 crashed")]
                ck.fail_input("no_panic", "the service panics the process in scenario family %s*: %s" % (fam, panic),
                              ["family=%s" % fam, panic] + trace)
                return
        return
    lines = ck.model("service", "c17", path)
    ex = open(path).read().splitlines()
    per = {}
    for l in ex:
        w = l.split(" ", 2)
        if len(w) >= 2 and w[0] in ("scn", "ev", "peer", "futfinal", "end"):
            per.setdefault(w[1], []).append(l)
    names = {}
    for l in ex:
        if l.startswith("scn "):
            names[l.split()[1]] = l
    # findings the option sweep records on this tree (a boundary value under which the unchanged code breaks a clause):
    # printed, kept in the evidence, not a violation of this run
    findings = sorted(set(l.split(" ok ", 1)[1] for l in ex if l.startswith("direct finding ") and " ok " in l and ":OBSERVED:" in l))
    if findings:
        ck.extra["findings_observed"] = findings
        for f in findings:
            if f.startswith("F-timeout0") or f.startswith("F-callback-api-vs-stop"):
                # "Stopping the service always returns" is violated on this input: a violation unless listed as an open known finding
                ck.fail_input("stop", "finding " + f, [l for l in ex if l.startswith("direct finding ") and f in l][:1])
            else:
                # outside the property's quantifier (a callback that stops or closes its own service / client, a 1 ns Wait): observation
                print("NOTE: observation (DESIGN.md 12.4, not a clause of the property): " + f[:400])
    direct_fail = [l for l in ex if l.startswith("direct ") and " FAIL" in l]
    for l in direct_fail:
        w = l.split()
        clause = DIRECT_CLAUSE.get(w[1], w[1])
        ck.fail_input(clause, l, per.get(w[2], [])[:400] + [l])
    tie_only = []
    witnessed = False
    for l in lines:
        if l.startswith("propfail "):
            w = l.split()
            witnessed = True
            ck.fail_input(w[2], l, per.get(w[1], [])[:400] + [l])
        elif l.startswith("diff "):
            tie_only.append(l)
    if tie_only and not direct_fail and not witnessed:
        # the implementation left the monitor's language but every clause evaluated on the observations held
        rep = []
        for l in tie_only[:5]:
            rep += per.get(l.split()[1], [])[:400] + [l]
        ck.fail_unwitnessed("correspondence Client/Service.v ~ client.Service (%d traces not accepted by the monitor)" % len(tie_only), rep)
    if ck.tier == "thorough" and not ck.replay:
        ck.coqchk(["GM.Props.C17", "GM.Props.C15_service"])
    ck.extra["future_outcomes_seen"] = sorted(l[6:] for l in lines if l.startswith("cause "))
    ck.extra["classes"] = sorted(l[6:] for l in lines if l.startswith("class "))[:400]
    ck.evaluations = ck.stats.get("events", 0)
    ck.distinct = ck.stats.get("model_distinct", 0)
    ck.rule = ("%s scenarios on the real client.Service over an in-memory recording transport: fixed regressions (D8, D15, D16, D17), the "
               "enumeration over per-attempt failure schedules {dial refused, CONNECT unsendable, no CONNACK, CONNACK refused, drop before "
               "CONNACK, drop after k requests, k-th send fails, subscribe rejected, resubscribe request unsendable / unanswered / rejected / "
               "dropped} x command mixes x Stop(true|false)/Start at every control point, queue-full scenarios, and seeded random mixes; "
               "evaluations = events fed to the monitor; distinct_nontrivial = distinct (supervisor control point, API slot, event kind) "
               "triples the monitor went through" % ck.stats.get("scenarios", 0))
