"""C02 — decoder is total, memory-safe, local and spec-faithful on arbitrary bytes (packet/)."""

import os

ASSUMPTIONS = [
    "ownership (the decoded packet does not alias the source buffer) cannot be expressed in an immutable model: "
    "it is decided on the Go side of the tie by overwriting the source buffer after every successful decode",
    "Go slice expressions panic exactly when the model's checked slice/index helpers return None (s[:hi] is checked "
    "against len in the model, against cap in Go: harness buffers have cap = len)",
    "int is 64 bits wide (DetectPacket's 1+n+int(rl) is modelled with int64 wrap-around)",
    "CONNECT decoding is local only on buffers framed to the declared extent (open finding: it reads past the extent otherwise)",
]

CLAUSES = ("no_panic", "consumed", "spec_equiv", "local", "local_connect", "detect_agrees", "detect_view", "stream_read", "forwardable")


def judge(ck, path, lines):
    """turns the model runner's verdict lines and the harness's direct lines into verdicts"""
    # index the case lines that are referred to by a verdict line
    wanted = set()
    for l in lines:
        if l.startswith("propfail ") or l.startswith("diff "):
            wanted.add(l.split(" ", 2)[1])
    cases = {}
    direct_fail = []
    with open(path) as f:
        for l in f:
            if l.startswith("case "):
                k = l.split(" ", 2)[1]
                if k in wanted:
                    cases[k] = l.rstrip("\n")
            elif l.startswith("x3 "):
                pre = l.split(" ", 2)[1]
                if any(w.startswith(pre) and len(w) == 6 for w in wanted):
                    cases[pre] = l.rstrip("\n")
            elif l.startswith("direct ") and " FAIL " in l:
                direct_fail.append(l.rstrip("\n"))

    def case_of(k):
        if k in cases:
            return cases[k]
        if len(k) == 6 and k[:4] in cases:
            # an input of the exhaustive 3-byte table: a replayable case line for just that input
            t = int(k[0], 16)
            return "case 1 x3 %s e=- det=0,0 r/%d/-/err/0" % (k, t if 1 <= t <= 14 else 1)
        return ""

    witnessed = False
    for l in direct_fail:
        # direct <clause> FAIL case=<id> ...   (clauses decided on the implementation alone, in the harness)
        clause = ("ownership" if (l.startswith("direct ownership") or l.startswith("direct stream_ownership"))
                  else "no_panic" if l.startswith("direct type_new") else "spec_equiv" if l.startswith("direct spec_equiv")
                  else "stream_read" if l.startswith("direct stream_read") else "reencodable")
        k = l.split("case=", 1)[1].split(" ", 1)[0] if "case=" in l else None
        ck.fail_input(clause, l, ([case_of(k)] if k else []) + [l])
        witnessed = True
    tie_only = []
    for l in lines:
        if l.startswith("propfail "):
            f = l.split(" ", 3)
            k, clause = f[1], f[2]
            if clause not in CLAUSES:
                clause = "other"
            ck.fail_input(clause, l, [case_of(k), l])
            if ck.match_known(clause, l) is None:
                witnessed = True
        elif l.startswith("diff "):
            tie_only.append(l)
    if tie_only and not witnessed:
        # the decoder deviates from Codec/Dec.v although every evaluated clause still holds on the inputs tried
        ks = []
        for l in tie_only[:20]:
            ks.append(case_of(l.split(" ", 2)[1]))
            ks.append(l)
        ck.fail_unwitnessed("correspondence Codec/Dec.v ~ packet.Decode/DetectPacket (%d disagreeing cases)" % len(tie_only), ks)


def fuzz(ck, seconds):
    """thorough tier: time-boxed `go test -fuzz` (coverage-guided); a crasher of its in-process oracle is a
    failing input; every input it kept for new coverage then goes through the whole differential run"""
    import glob
    import shutil
    import vcheck
    god = os.path.join(vcheck.VERIF, "go")
    modfile = os.path.join(ck.work, "go.mod")
    crash_dir = os.path.join(god, "cmd", "codecdec", "testdata")
    shutil.rmtree(crash_dir, ignore_errors=True)
    rc, out = vcheck.sh(["go", "test", "-modfile", modfile, "-tags", "verif", "-run", "^$", "-fuzz", "FuzzDecode",
                         "-fuzztime", "%ds" % seconds, "./cmd/codecdec"], cwd=god, env=vcheck.GOENV, timeout=seconds + 900)
    ck.extra["fuzz_tail"] = out.strip()[-400:]
    crashers = glob.glob(os.path.join(crash_dir, "fuzz", "FuzzDecode", "*"))
    rc2, cache = vcheck.sh(["go", "env", "GOCACHE"], cwd=god, env=vcheck.GOENV)
    corpus = os.path.join(cache.strip().splitlines()[-1], "fuzz", "verifh", "cmd", "codecdec", "FuzzDecode")
    ck.extra["fuzz_corpus_entries"] = len(glob.glob(os.path.join(corpus, "*")))
    for d, name in ((os.path.join(crash_dir, "fuzz", "FuzzDecode"), "fuzzcrash.txt"), (corpus, "fuzzcorpus.txt")):
        if os.path.isdir(d) and os.listdir(d):
            path, _ = ck.harness("c02", out_name=name, extra=["-replay", d])
            judge(ck, path, ck.model("codecdec", "c02", path))
    if crashers and not ck.violations:
        # the in-process oracle failed but the differential run does not reproduce it
        ck.fail_unwitnessed("go test -fuzz FuzzDecode oracle: " + out.strip()[-600:], [open(c).read() for c in crashers[:3]])
    elif rc != 0 and not crashers:
        ck.notes.append("go test -fuzz did not run: " + out[-1500:])
        ck.broken.append("go test -fuzz FuzzDecode failed to run: " + out.strip()[-300:])
    shutil.rmtree(crash_dir, ignore_errors=True)


def run(ck):
    ck.coq()
    if not ck.build_harness("codecdec"):
        return
    extra = ["-replay", os.path.abspath(ck.replay)] if ck.replay else []   # the harness runs in .work/
    path, _ = ck.harness("c02", extra=extra)
    lines = ck.model("codecdec", "c02", path)
    judge(ck, path, lines)
    if ck.tier == "thorough" and not ck.replay:
        fuzz(ck, 90)
        ck.coqchk(["GM.Props.C02"])
    ck.evaluations = ck.stats.get("model_cases", 0) + ck.stats.get("ownership_checks", 0) + ck.stats.get("reencode_checks", 0) + ck.stats.get("stream_ownership_checks", 0)
    ck.distinct = ck.stats.get("model_distinct", 0)
    ck.extra["ownership_checks"] = ck.stats.get("ownership_checks", 0)
    ck.extra["reencode_checks"] = ck.stats.get("reencode_checks", 0)
    ck.rule = ("every input: DetectPacket vs detect_go, and its stream-decoder view vs Stream.detect_impl (detect_view); Decode of the type "
               "named by the first nibble and of mismatching types vs decode_go and vs ref_decode (accept iff, same fields, same count); "
               "admitted PUBLISH / will judged by WF.wf at every QoS <= its own (forwardable) and re-encoded in Go; when the declared extent "
               "fits: framed to the extent, extent + random tail, extent + a valid packet, all compared with the framed result (locality); "
               "the same bytes, and bytes + a valid packet, through packet.Decoder: first Read and the Read after it vs ReadSpec.read_spec, "
               "with no limit, a limit of exactly the packet size and one less (stream_read); source buffer overwritten after every successful "
               "decode, packets read through packet.Decoder re-examined after later reads reused its pooled buffers (ownership). "
               "Inputs: fixed corpus (repository test vectors, D1-D3 witnesses); the rule table (one obeying and the smallest violating packets "
               "for every rule of the reference grammar, one packet per leniency L1-L6); all 1- and 2-byte strings; all 256 first bytes x 26 "
               "boundary shapes of 1..5-byte remaining lengths; valid encodings of structured random packets of all 14 types with every prefix, "
               "every single-bit flip, byte/16-bit edits at every position, remaining-length edits and non-minimal encodings, all 16 flag and "
               "type nibbles, deletions, duplications, extensions, splices; sampled type x flags x varint-shape headers; random bytes; packets at "
               "the 127/128, 16383/16384 and 65535 boundaries; hand-built PUBLISH at every remaining-length width boundary and SUBSCRIBE / "
               "UNSUBSCRIBE / SUBACK / PUBLISH beyond 2097152 through DetectPacket, Decode, re-Encode and packet.Decoder with limits (Go side); "
               "Type.New/Valid/String for all 256 type values and packet.Fuzz on 1024 headers. "
               "thorough adds all 3-byte strings, all header shapes, 5x the structured set, 90 s of go test -fuzz whose kept inputs are replayed "
               "through the differential run. distinct_nontrivial = distinct (type, buffer) pairs whose header declares an extent")
