"""C02 — decoder is total, memory-safe, local and spec-faithful on arbitrary bytes (packet/)."""

import os

ASSUMPTIONS = [
    "ownership (the decoded packet does not alias the source buffer) cannot be expressed in an immutable model: "
    "it is decided on the Go side of the tie by overwriting the source buffer after every successful decode",
    "Go slice expressions panic exactly when the model's checked slice/index helpers return None (s[:hi] is checked "
    "against len in the model, against cap in Go: harness buffers have cap = len)",
    "int is 64 bits wide (DetectPacket's 1+n+int(rl) is modelled with int64 wrap-around)",
    "CONNECT decoding is local only on buffers framed to the declared extent (open finding: it reads past the extent otherwise)",
]

CLAUSES = ("no_panic", "consumed", "spec_equiv", "local", "local_connect", "detect_agrees")


def run(ck):
    ck.coq()
    if not ck.build_harness("codecdec"):
        return
    extra = ["-replay", os.path.abspath(ck.replay)] if ck.replay else []   # the harness runs in .work/
    path, _ = ck.harness("c02", extra=extra)
    lines = ck.model("codecdec", "c02", path)
    # index the case lines that are referred to by a verdict line
    wanted = set()
    for l in lines:
        if l.startswith("propfail ") or l.startswith("diff "):
            wanted.add(l.split(" ", 2)[1])
    cases = {}
    direct_fail = []
    with open(path) as f:
        for l in f:
            if l.startswith("case "):
                k = l.split(" ", 2)[1]
                if k in wanted:
                    cases[k] = l.rstrip("\n")
            elif l.startswith("x3 "):
                pre = l.split(" ", 2)[1]
                if any(w.startswith(pre) and len(w) == 6 for w in wanted):
                    cases[pre] = l.rstrip("\n")
            elif l.startswith("direct ") and " FAIL " in l:
                direct_fail.append(l.rstrip("\n"))

    def case_of(k):
        if k in cases:
            return cases[k]
        if len(k) == 6 and k[:4] in cases:
            # an input of the exhaustive 3-byte table: a replayable case line for just that input
            t = int(k[0], 16)
            return "case 1 x3 %s e=- det=0,0 r/%d/-/err/0" % (k, t if 1 <= t <= 14 else 1)
        return ""

    witnessed = False
    for l in direct_fail:
        # direct ownership FAIL case=<id> ... / direct reencode FAIL case=<id> ...
        clause = ("ownership" if (l.startswith("direct ownership") or l.startswith("direct stream_ownership"))
                  else "no_panic" if l.startswith("direct type_new") else "spec_equiv" if l.startswith("direct spec_equiv") else "reencodable")
        k = l.split("case=", 1)[1].split(" ", 1)[0] if "case=" in l else None
        ck.fail_input(clause, l, ([case_of(k)] if k else []) + [l])
        witnessed = True
    tie_only = []
    for l in lines:
        if l.startswith("propfail "):
            f = l.split(" ", 3)
            k, clause = f[1], f[2]
            if clause not in CLAUSES:
                clause = "other"
            ck.fail_input(clause, l, [case_of(k), l])
            if ck.match_known(clause, l) is None:
                witnessed = True
        elif l.startswith("diff "):
            tie_only.append(l)
    if tie_only and not witnessed:
        # the decoder deviates from Codec/Dec.v although every evaluated clause still holds on the inputs tried
        ks = []
        for l in tie_only[:20]:
            ks.append(case_of(l.split(" ", 2)[1]))
            ks.append(l)
        ck.fail_unwitnessed("correspondence Codec/Dec.v ~ packet.Decode/DetectPacket (%d disagreeing cases)" % len(tie_only), ks)
    if ck.tier == "thorough" and not ck.replay:
        ck.coqchk(["GM.Props.C02"])
    ck.evaluations = ck.stats.get("model_cases", 0) + ck.stats.get("ownership_checks", 0) + ck.stats.get("reencode_checks", 0) + ck.stats.get("stream_ownership_checks", 0)
    ck.distinct = ck.stats.get("model_distinct", 0)
    ck.extra["ownership_checks"] = ck.stats.get("ownership_checks", 0)
    ck.extra["reencode_checks"] = ck.stats.get("reencode_checks", 0)
    ck.rule = ("every input: DetectPacket vs detect_go; Decode of the type named by the first nibble and of mismatching types vs "
               "decode_go and vs ref_decode (accept iff, same fields, same count); when the declared extent fits: framed to the extent, "
               "extent + random tail, extent + a valid packet, all compared with the framed result (locality); source buffer overwritten "
               "after every successful decode, and packets read through packet.Decoder re-examined after later reads reused its pooled buffers (ownership); every admitted PUBLISH / will re-encoded at each QoS <= its own. "
               "Inputs: fixed corpus (repository test vectors, D1-D3 witnesses), all 1- and 2-byte strings, valid encodings of structured "
               "random packets of all 14 types with every prefix, every single-bit flip, byte/16-bit edits at every position, "
               "remaining-length edits and non-minimal encodings, all 16 flag and type nibbles, deletions, duplications, splices, "
               "type x flags x varint-shape headers, random bytes, packets at the 127/128, 16383/16384 and 65535 boundaries; hand-built PUBLISHes at every "
               "remaining-length width boundary up to 2097151/2097152 through DetectPacket, Publish.Decode and packet.Decoder (agreement, next packet intact); "
               "thorough adds all 3-byte strings, all header shapes, 8x the structured set. "
               "distinct_nontrivial = distinct (type, buffer) pairs whose header declares an extent")
