(* drv_topic.ml — runs the topic tree model (Trie.v), the map specification (TreeSpec.v)
   and the reference relation (MatchSpec.v) on the exchange files of go/cmd/topic.
   Formats: see go/cmd/topic/c04.go, c05.go, conc.go.

   propfail <clause> …   the implementation's answer is not what the SPECIFICATION allows
   diff …                the implementation agrees with the specification but not with the trie model *)
open Conv
module L = Stdlib.List
module S = Stdlib.String

let max_report = 40
let reported : (string, int) Hashtbl.t = Hashtbl.create 16
let bad = ref 0
let report kind clause fmt =
  Printf.ksprintf (fun msg ->
    incr bad;
    let key = kind ^ " " ^ clause in
    let k = try Hashtbl.find reported key with Not_found -> 0 in
    Hashtbl.replace reported key (k + 1);
    if k < max_report then Printf.printf "%s %s %s\n" kind clause msg) fmt

(* "?" = something that was never stored: a value no specification answer contains *)
let foreign = n_of_int 987654321
let value_of_s w = if w = "?" then foreign else n_of_string w
let vlist_of_s s : BinNums.coq_N list =
  if s = "-" || s = "" then [] else L.map value_of_s (split '.' s)
let ints (l : BinNums.coq_N list) = L.map int_of_n l
let s_of_ints l = if l = [] then "-" else S.concat "." (L.map string_of_int l)
let s_of_vlist l = s_of_ints (ints l)
let sorted l = L.sort compare (ints l)
let first_of_s s = if s = "-" then None else Some (value_of_s s)
let s_of_first = function None -> "-" | Some v -> string_of_n v
let seven = n_of_int 7

let field prefix w =
  let n = S.length prefix in
  if S.length w >= n && S.sub w 0 n = prefix then S.sub w n (S.length w - n) else failwith ("expected " ^ prefix ^ " in " ^ w)

let s_of_path (p : Byte.byte list list) = S.concat "/" (L.map hex_of_bytes p)
let s_of_shape (sh : (Byte.byte list list * BinNums.coq_N) list) =
  if sh = [] then "-" else
  S.concat "," (L.sort compare (L.map (fun (p, n) -> s_of_path p ^ "=" ^ string_of_n n) sh))

let op_of_s (s : string) : Trie.op =
  match split ':' s with
  | ["A"; t; v] -> Trie.OAdd (bytes_of_hex t, n_of_string v)
  | ["S"; t; v] -> Trie.OSet (bytes_of_hex t, n_of_string v)
  | ["R"; t; v] -> Trie.ORemove (bytes_of_hex t, n_of_string v)
  | ["E"; t] -> Trie.OEmpty (bytes_of_hex t)
  | ["C"; v] -> Trie.OClear (n_of_string v)
  | ["X"] -> Trie.OReset
  | _ -> failwith ("bad op " ^ s)

(* ------------------------------------------------------------------ c04 *)
let run_c04 path =
  let n = ref 0 and distinct = ref 0 in
  let names = ref [||] and filters = ref [||] in
  let sets : (string, Trie.tree * TreeSpec.tmap) Hashtbl.t = Hashtbl.create 1024 in
  let seenq = Hashtbl.create 4096 in
  let mrows : (int, string) Hashtbl.t = Hashtbl.create 1024 in
  let bit c = (c = '1') in
  L.iter (fun line -> match words line with
    | "names" :: l -> names := Array.of_list (L.map bytes_of_hex l)
    | "filters" :: l -> filters := Array.of_list (L.map bytes_of_hex l)
    | ["mrow"; fi; a; b] ->
      Hashtbl.replace mrows (int_of_string fi) a;
      let f = !filters.(int_of_string fi) in
      let t = Trie.coq_Set_ Trie.coq_New f seven in
      let fl = MatchSpec.split_levels f in
      Array.iteri (fun ni name ->
        incr n; incr distinct;
        let spec = MatchSpec.matches fl (MatchSpec.split_levels name) in
        let mm = (Trie.coq_Match t name <> []) and mf = (Trie.coq_MatchFirst t name <> None) in
        let pr = Printf.sprintf "filter=%s name=%s" (hex_of_bytes f) (hex_of_bytes name) in
        if a.[ni] = 'x' || bit a.[ni] <> spec then report "propfail" "match" "%s Match=%c spec=%b" pr a.[ni] spec
        else if b.[ni] = 'x' || bit b.[ni] <> spec then report "propfail" "first" "%s MatchFirst=%c spec=%b" pr b.[ni] spec
        else if mm <> spec || mf <> spec then report "diff" "match" "%s model Match=%b MatchFirst=%b impl=spec=%b" pr mm mf spec) !names
    | ["srow"; ni; a; b] ->
      let name = !names.(int_of_string ni) in
      let t = Trie.coq_Set_ Trie.coq_New name seven in
      let nl = MatchSpec.split_levels name in
      Array.iteri (fun fi f ->
        incr n;
        let spec = MatchSpec.matches (MatchSpec.split_levels f) nl in
        let mm = (Trie.coq_Search t f <> []) and mf = (Trie.coq_SearchFirst t f <> None) in
        let pr = Printf.sprintf "filter=%s name=%s" (hex_of_bytes f) (hex_of_bytes name) in
        (* the two directions, on the implementation alone: Match on {f} finds name iff Search on {name} finds it with f *)
        (match Hashtbl.find_opt mrows fi with
         | Some ma when ma.[int_of_string ni] <> a.[fi] ->
           report "propfail" "directions" "%s Match=%c Search=%c" pr ma.[int_of_string ni] a.[fi]
         | _ -> ());
        if a.[fi] = 'x' || bit a.[fi] <> spec then report "propfail" "search" "%s Search=%c spec=%b" pr a.[fi] spec
        else if b.[fi] = 'x' || bit b.[fi] <> spec then report "propfail" "first" "%s SearchFirst=%c spec=%b" pr b.[fi] spec
        else if mm <> spec || mf <> spec then report "diff" "search" "%s model Search=%b SearchFirst=%b impl=spec=%b" pr mm mf spec) !filters
    | "set" :: k :: entries ->
      let st = L.fold_left (fun (t, m) e -> match split ':' e with
        | [h; v] -> let o = Trie.OAdd (bytes_of_hex h, n_of_string v) in (Trie.apply_trie t o, TreeSpec.apply_spec m o)
        | _ -> failwith "bad entry") (Trie.coq_New, []) entries in
      Hashtbl.replace sets k st
    | "hset" :: k :: ops ->
      (* a set reached through a history; the stored set is what the map specification says *)
      let st = L.fold_left (fun (t, m) o -> let o = op_of_s o in (Trie.apply_trie t o, TreeSpec.apply_spec m o)) (Trie.coq_New, []) ops in
      Hashtbl.replace sets k st
    | ["q"; k; h; m; mf; s; sf] ->
      let (t, sp) = Hashtbl.find sets k in
      let topic = bytes_of_hex h in
      let pr = Printf.sprintf "set=%s topic=%s" k h in
      if not (Hashtbl.mem seenq line) then (Hashtbl.replace seenq line (); incr distinct);
      let m = field "M=" m and mf = field "MF=" mf and s = field "S=" s and sf = field "SF=" sf in
      if m <> "~" then begin
        incr n;
        let il = vlist_of_s m and io = first_of_s mf in
        let ml = Trie.coq_Match t topic and mo = Trie.coq_MatchFirst t topic in
        if not (TreeSpec.answer_okb sp (Trie.QMatch topic) (Trie.AList il)) then
          report "propfail" "match" "%s Match=%s spec=%s" pr m (s_of_ints (sorted (TreeSpec.s_match sp (MatchSpec.split_levels topic))))
        else if not (TreeSpec.answer_okb sp (Trie.QMatchFirst topic) (Trie.AFirst io)) then
          report "propfail" "first" "%s MatchFirst=%s spec Match=%s" pr mf (s_of_ints (sorted (TreeSpec.s_match sp (MatchSpec.split_levels topic))))
        else if il <> ml || io <> mo then
          report "diff" "match" "%s impl Match=%s MatchFirst=%s model Match=%s MatchFirst=%s" pr m mf (s_of_vlist ml) (s_of_first mo)
      end;
      if MatchSpec.valid_filter topic then begin
        incr n;
        let il = vlist_of_s s and io = first_of_s sf in
        let ml = Trie.coq_Search t topic and mos = Trie.coq_SearchFirsts t topic in
        if not (TreeSpec.answer_okb sp (Trie.QSearch topic) (Trie.AList il)) then
          report "propfail" "search" "%s Search=%s spec=%s" pr s (s_of_ints (sorted (TreeSpec.s_search sp (MatchSpec.split_levels topic))))
        else if not (TreeSpec.answer_okb sp (Trie.QSearchFirst topic) (Trie.AFirst io)) then
          report "propfail" "first" "%s SearchFirst=%s spec Search=%s" pr sf (s_of_ints (sorted (TreeSpec.s_search sp (MatchSpec.split_levels topic))))
        else if sorted il <> sorted ml || (match io with None -> mos <> [] | Some v -> not (L.mem v mos)) then
          report "diff" "search" "%s impl Search=%s SearchFirst=%s model Search=%s SearchFirst in %s" pr s sf (s_of_ints (sorted ml)) (s_of_vlist mos)
      end
    | _ -> ()) (read_lines path);
  Printf.printf "done cases=%d diffs=%d distinct=%d\n" !n !bad !distinct

(* ------------------------------------------------------------------ c05 *)
type ans = { per : (string * string * string * string * string) array; all : string; cnt : string; shape : string }

let parse_ans (nq : int) (s : string) : ans =
  let fs = Array.of_list (split '|' s) in
  let v i = let w = fs.(i) in let k = S.index w '=' in S.sub w (k + 1) (S.length w - k - 1) in
  { per = Array.init nq (fun i -> (v (5*i), v (5*i+1), v (5*i+2), v (5*i+3), v (5*i+4)));
    all = v (5*nq); cnt = v (5*nq+1); shape = v (5*nq+2) }

(* compare one observed state with model state t and specification state m *)
let check_state (uni : Byte.byte list array) (wf : bool array) (vf : bool array) (t : Trie.tree) (m : TreeSpec.tmap) (a : ans) (ctx : unit -> string) =
  let ok = ref true in
  let pf clause fmt = Printf.ksprintf (fun msg -> ok := false; report "propfail" clause "%s %s" msg (ctx ())) fmt in
  let df clause fmt = Printf.ksprintf (fun msg -> ok := false; report "diff" clause "%s %s" msg (ctx ())) fmt in
  Array.iteri (fun i topic ->
    let (g, mt, f, s, x) = a.per.(i) in
    let h = hex_of_bytes topic in
    let lv = MatchSpec.split_levels topic in
    let gl = vlist_of_s g in
    if not (TreeSpec.answer_okb m (Trie.QGet topic) (Trie.AList gl)) then pf "get" "Get(%s)=%s spec=%s" h g (s_of_vlist (TreeSpec.s_get m lv))
    else if gl <> Trie.coq_Get t topic then df "get" "Get(%s)=%s model=%s" h g (s_of_vlist (Trie.coq_Get t topic));
    let ml = vlist_of_s mt and fo = first_of_s f in
    if wf.(i) && not (TreeSpec.answer_okb m (Trie.QMatch topic) (Trie.AList ml)) then
      pf "match" "Match(%s)=%s spec=%s" h mt (s_of_ints (sorted (TreeSpec.s_match m lv)))
    else if wf.(i) && not (TreeSpec.answer_okb m (Trie.QMatchFirst topic) (Trie.AFirst fo)) then
      pf "first" "MatchFirst(%s)=%s spec Match=%s" h f (s_of_ints (sorted (TreeSpec.s_match m lv)))
    else if ml <> Trie.coq_Match t topic || fo <> Trie.coq_MatchFirst t topic then
      df "match" "Match(%s)=%s MatchFirst=%s model=%s %s" h mt f (s_of_vlist (Trie.coq_Match t topic)) (s_of_first (Trie.coq_MatchFirst t topic));
    let sl = vlist_of_s s and xo = first_of_s x in
    if vf.(i) && not (TreeSpec.answer_okb m (Trie.QSearch topic) (Trie.AList sl)) then
      pf "search" "Search(%s)=%s spec=%s" h s (s_of_ints (sorted (TreeSpec.s_search m lv)))
    else if vf.(i) && not (TreeSpec.answer_okb m (Trie.QSearchFirst topic) (Trie.AFirst xo)) then
      pf "first" "SearchFirst(%s)=%s spec Search=%s" h x (s_of_ints (sorted (TreeSpec.s_search m lv)))
    else begin
      let msl = Trie.coq_Search t topic and mxs = Trie.coq_SearchFirsts t topic in
      if sorted sl <> sorted msl || (match xo with None -> mxs <> [] | Some v -> not (L.mem v mxs)) then
        df "search" "Search(%s)=%s SearchFirst=%s model=%s in %s" h s x (s_of_ints (sorted msl)) (s_of_vlist mxs)
    end) uni;
  let al = vlist_of_s a.all in
  if not (TreeSpec.answer_okb m Trie.QAll (Trie.AList al)) then pf "all" "All=%s spec=%s" a.all (s_of_ints (sorted (TreeSpec.s_all m)))
  else if sorted al <> sorted (Trie.coq_All t) then df "all" "All=%s model=%s" a.all (s_of_ints (sorted (Trie.coq_All t)));
  if a.cnt <> string_of_n (TreeSpec.s_count m) then pf "count" "Count=%s spec=%s" a.cnt (string_of_n (TreeSpec.s_count m))
  else if a.cnt <> string_of_n (Trie.coq_Count t) then df "count" "Count=%s model=%s" a.cnt (string_of_n (Trie.coq_Count t));
  let ssh = s_of_shape (TreeSpec.s_shape m) and msh = s_of_shape (Trie.coq_Shape t) in
  if a.shape <> ssh then pf "shape" "String=%s spec=%s" a.shape ssh
  else if a.shape <> msh then df "shape" "String=%s model=%s" a.shape msh;
  !ok

let run_c05 path =
  let n = ref 0 and distinct = ref 0 in
  let uni = ref [||] and wf = ref [||] and vf = ref [||] in
  let answers : (string, ans) Hashtbl.t = Hashtbl.create 4096 in
  let memo : (string, bool) Hashtbl.t = Hashtbl.create 65536 in
  let stack : (Trie.tree * TreeSpec.tmap * string list) list ref = ref [] in
  let uniline = ref "" in
  let top () = match !stack with x :: _ -> x | [] -> (Trie.coq_New, [], []) in
  L.iter (fun line ->
    if S.length line > 4 && S.sub line 0 4 = "ans " then begin
      let k = S.index_from line 4 ' ' in
      Hashtbl.replace answers (S.sub line 4 (k - 4)) (parse_ans (Array.length !uni) (S.sub line (k + 1) (S.length line - k - 1)))
    end else match words line with
    | "uni" :: l ->
      uni := Array.of_list (L.map bytes_of_hex l);
      wf := Array.map MatchSpec.wildcard_free !uni;
      vf := Array.map MatchSpec.valid_filter !uni;
      uniline := line;
      Hashtbl.reset answers; Hashtbl.reset memo; stack := []
    | ["new"] -> stack := []
    | ["pop"; k] -> for _ = 1 to int_of_string k do stack := L.tl !stack done
    | ["push"; o; id] | ["seq"; o; id] ->
      incr n;
      let is_seq = (S.length line > 3 && S.sub line 0 3 = "seq") in
      let (t', m', h') =
        if is_seq then
          (* a whole history from the empty tree; the stack is left alone *)
          L.fold_left (fun (t, m, h) o1 -> let op = op_of_s o1 in (Trie.apply_trie t op, TreeSpec.apply_spec m op, o1 :: h))
            (Trie.coq_New, [], []) (split ',' o)
        else begin
          let (t, m, h) = top () in
          let op = op_of_s o in
          let st = (Trie.apply_trie t op, TreeSpec.apply_spec m op, o :: h) in
          stack := st :: !stack; st end in
      let key = Marshal.to_string (t', m', id) [] in
      (match Hashtbl.find_opt memo key with
       | Some true -> ()
       | Some false -> incr bad
       | None ->
         incr distinct;
         let a = Hashtbl.find answers id in
         let ctx () = Printf.sprintf "history=%s uni=%s" (S.concat "," (L.rev h'))
             (S.concat "," (L.map hex_of_bytes (Array.to_list !uni))) in
         let ok = check_state !uni !wf !vf t' m' a ctx in
         if not (Trie.prunedb t') then report "diff" "pruned" "model tree has an empty node %s" (ctx ());
         Hashtbl.replace memo key ok)
    | _ -> ()) (read_lines path);
  Printf.printf "done cases=%d diffs=%d distinct=%d\n" !n !bad !distinct

(* ------------------------------------------------------------------ c05conc *)
let writers = ["Add"; "Set"; "Remove"; "Empty"; "Clear"; "Reset"]
let readers = ["Get"; "Match"; "MatchFirst"; "Search"; "SearchFirst"; "Count"; "All"; "String"]

let run_c05conc path =
  let n = ref 0 and distinct = ref 0 in
  let seen_methods = ref [] in
  let gors : (string, (int * Trie.op list) list) Hashtbl.t = Hashtbl.create 64 in
  let inter own l = L.filter (fun v -> L.mem v own) l in
  L.iter (fun line -> match words line with
    | ["lockerror"; e] -> report "propfail" "lock" "tree.go does not parse: %s" e
    | ["lock"; meth; root; lock; unlock] ->
      incr n; incr distinct;
      seen_methods := meth :: !seen_methods;
      let root = field "root=" root and lock = field "lock=" lock and unlock = field "defer=" unlock in
      let locked = (lock = "Lock" && unlock = "Unlock") || (lock = "RLock" && unlock = "RUnlock") in
      if root = "1" && not locked then
        report "propfail" "lock" "%s touches t.root but does not start with mutex.(R)Lock(); defer mutex.(R)Unlock() (lock=%s defer=%s)" meth lock unlock
      else if L.mem meth writers && lock <> "Lock" then
        report "propfail" "lock" "%s modifies the tree but takes %s" meth lock
    | ["conc"; k; _] -> Hashtbl.replace gors k []
    | "gor" :: k :: g :: own :: steps ->
      let own = vlist_of_s own in
      let t = ref Trie.coq_New and m = ref [] in
      let ops = ref [] in
      L.iteri (fun i st -> match split ';' st with
        | [o; gt; gv; nm; mv; fl; sv] ->
          incr n;
          let op = op_of_s o in
          ops := op :: !ops;
          t := Trie.apply_trie !t op;
          m := TreeSpec.apply_spec !m op;
          (* judged by the specification map run on this goroutine's operations alone (C05_commute / C05_interleave);
             order of a Get answer is compared with the trie model only as a correspondence *)
          let sg = TreeSpec.s_get !m (MatchSpec.split_levels (bytes_of_hex gt)) in
          let sm = sorted (inter own (TreeSpec.s_match !m (MatchSpec.split_levels (bytes_of_hex nm)))) in
          let ss = sorted (inter own (TreeSpec.s_search !m (MatchSpec.split_levels (bytes_of_hex fl)))) in
          if not (TreeSpec.permb (vlist_of_s gv) sg) then report "propfail" "atomic" "run=%s goroutine=%s step=%d after %s Get(%s)=%s sequential=%s" k g i o gt gv (s_of_vlist sg)
          else if sorted (vlist_of_s mv) <> sm then report "propfail" "atomic" "run=%s goroutine=%s step=%d after %s Match(%s) own=%s sequential=%s" k g i o nm mv (s_of_ints sm)
          else if sorted (vlist_of_s sv) <> ss then report "propfail" "atomic" "run=%s goroutine=%s step=%d after %s Search(%s) own=%s sequential=%s" k g i o fl sv (s_of_ints ss)
          else if vlist_of_s gv <> Trie.coq_Get !t (bytes_of_hex gt) then
            report "diff" "conc" "run=%s goroutine=%s step=%d Get(%s)=%s model order %s" k g i gt gv (s_of_vlist (Trie.coq_Get !t (bytes_of_hex gt)))
        | _ -> failwith ("bad step " ^ st)) steps;
      Hashtbl.replace gors k ((int_of_string g, L.rev !ops) :: (try Hashtbl.find gors k with Not_found -> []))
    | "final" :: k :: rest ->
      incr n; incr distinct;
      let all_ops = L.concat (L.map snd (L.sort compare (Hashtbl.find gors k))) in
      let t = L.fold_left Trie.apply_trie Trie.coq_New all_ops in
      let m = L.fold_left TreeSpec.apply_spec [] all_ops in
      L.iter (fun w ->
        let i = S.index w '=' in
        let key = S.sub w 0 i and v = S.sub w (i + 1) (S.length w - i - 1) in
        match key with
        | "all" -> if not (TreeSpec.permb (vlist_of_s v) (TreeSpec.s_all m)) then report "propfail" "atomic" "run=%s final All=%s sequential=%s" k v (s_of_ints (sorted (TreeSpec.s_all m)))
                   else if sorted (vlist_of_s v) <> sorted (Trie.coq_All t) then report "diff" "final" "run=%s All" k
        | "cnt" -> if v <> string_of_n (TreeSpec.s_count m) then report "propfail" "atomic" "run=%s final Count=%s sequential=%s" k v (string_of_n (TreeSpec.s_count m))
                   else if v <> string_of_n (Trie.coq_Count t) then report "diff" "final" "run=%s Count" k
        | "shape" -> if v <> s_of_shape (TreeSpec.s_shape m) then report "propfail" "atomic" "run=%s final String=%s sequential=%s" k v (s_of_shape (TreeSpec.s_shape m))
                   else if v <> s_of_shape (Trie.coq_Shape t) then report "diff" "final" "run=%s String" k
        | h -> let topic = bytes_of_hex h in
               if not (TreeSpec.permb (vlist_of_s v) (TreeSpec.s_get m (MatchSpec.split_levels topic))) then
                 report "propfail" "atomic" "run=%s final Get(%s)=%s sequential=%s" k h v (s_of_vlist (TreeSpec.s_get m (MatchSpec.split_levels topic)))
               else if vlist_of_s v <> Trie.coq_Get t topic then report "diff" "final" "run=%s Get(%s)=%s model=%s" k h v (s_of_vlist (Trie.coq_Get t topic))) rest
    | _ -> ()) (read_lines path);
  L.iter (fun m -> if not (L.mem m !seen_methods) then report "diff" "lock" "method %s not found in tree.go" m) (writers @ readers);
  Printf.printf "done cases=%d diffs=%d distinct=%d\n" !n !bad !distinct

(* ------------------------------------------------------------------ c05lin *)
let lop_of_s (s : string) : TreeLin.lop =
  match split ':' s with
  | ["G"; t] -> TreeLin.LGet (bytes_of_hex t)
  | ["M"; t] -> TreeLin.LMatch (bytes_of_hex t)
  | ["Q"; t] -> TreeLin.LSearch (bytes_of_hex t)
  | ["MF"; t] -> TreeLin.LMatchFirst (bytes_of_hex t)
  | ["QF"; t] -> TreeLin.LSearchFirst (bytes_of_hex t)
  | ["L"] -> TreeLin.LAll
  | ["N"] -> TreeLin.LCount
  | _ -> TreeLin.LUpd (op_of_s s)

let lin_fuel = n_of_int 400000

let run_c05lin path =
  let n = ref 0 and distinct = ref 0 and undecided = ref 0 and concurrent = ref 0 in
  L.iter (fun line -> match words line with
    | "lin" :: k :: evs ->
      incr n;
      let parsed = L.map (fun e -> match split ';' e with
        | [_; call; ret; o; r] -> (lop_of_s o, vlist_of_s r, int_of_string call, int_of_string ret)
        | _ -> failwith ("bad event " ^ e)) evs in
      (* candidates are tried in call order, which is close to the order a correct implementation linearizes in *)
      let parsed = L.sort (fun (_, _, c1, _) (_, _, c2, _) -> compare c1 c2) parsed in
      let h = L.map (fun (o, r, c, t) -> TreeLin.mk_event o r (n_of_int c) (n_of_int t)) parsed in
      (* non-trivial: some pair of operations really overlaps in time *)
      if L.exists (fun (_, _, c1, t1) -> L.exists (fun (_, _, c2, t2) -> c1 < c2 && c2 < t1) parsed) parsed then incr concurrent;
      incr distinct;
      (match TreeLin.tree_lin_verdict h lin_fuel with
       | Lin.Yes -> ()
       | Lin.No -> report "propfail" "lin" "%s no linearization exists for history: %s" k (S.concat " " evs)
       | Lin.OutOfFuel -> incr undecided)
    | _ -> ()) (read_lines path);
  Printf.printf "note lin undecided=%d concurrent=%d\n" !undecided !concurrent;
  Printf.printf "done cases=%d diffs=%d distinct=%d\n" !n !bad !distinct

(* ------------------------------------------------------------------ parse *)
let s_of_presult = function
  | Parse.POk t -> "ok:" ^ hex_of_bytes t
  | Parse.PErr Parse.ErrZeroLength -> "zl"
  | Parse.PErr Parse.ErrWildcards -> "wc"
  | Parse.POutOfFuel -> "fuel"

let run_parse path =
  let n = ref 0 and distinct = ref 0 in
  let seen = Hashtbl.create 4096 in
  L.iter (fun line -> match words line with
    | ["parse"; h; a; r; w] ->
      incr n;
      if not (Hashtbl.mem seen line) then (Hashtbl.replace seen line (); incr distinct);
      let s = bytes_of_hex h and allow = (a = "1") in
      let m = s_of_presult (Parse.parse s allow) in
      let cw = if Parse.contains_wildcards s then "1" else "0" in
      let nul_free = MatchSpec.no_nul s in
      (* the property predicate: classification by parse_spec, and a successful result is in normal form *)
      let spec = s_of_presult (Parse.parse_spec s allow) in
      let ok_normal = (S.length r < 3 || S.sub r 0 3 <> "ok:") ||
                      Parse.normal_form allow (bytes_of_hex (S.sub r 3 (S.length r - 3))) in
      if nul_free && r <> spec then report "propfail" "parse" "input=%s allow=%s Parse=%s spec=%s" h a r spec
      else if nul_free && not ok_normal then report "propfail" "parse" "input=%s allow=%s Parse=%s is not in normal form" h a r
      else if r <> m then report "diff" "parse" "input=%s allow=%s Parse=%s model=%s" h a r m
      else if w <> cw then report "diff" "parse" "input=%s ContainsWildcards=%s model=%s" h w cw
    | _ -> ()) (read_lines path);
  Printf.printf "done cases=%d diffs=%d distinct=%d\n" !n !bad !distinct

let () = register "c04" run_c04; register "c05" run_c05; register "c05conc" run_c05conc;
  register "c05lin" run_c05lin; register "parse" run_parse
