(* drv_backend_clauses.ml — the specification clauses (Broker/BackendSpec.v, extracted)
   evaluated on one observed step of the implementation *)
let eval (prev : Backend.state) (op : Backend.op) (r : Backend.result) (next : Backend.state) : (string * bool) list = []
