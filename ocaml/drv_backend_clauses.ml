(* drv_backend_clauses.ml — the specification clauses (Broker/BackendSpec.v, extracted)
   evaluated on one observed step of the implementation.  The clause names are the
   ones printed after `propfail`. *)
open Backend
let eval (prev : state) (op : op) (r : result) (next : state) : (string * bool) list =
  let retained_head = match op with
    | ODequeue (c, temp) ->
      (match session_of prev c with
       | Some (_, s) -> (match (if temp then s.s_tq else s.s_sq) with m :: _ -> m.Packet.m_retain | [] -> false)
       | None -> false)
    | _ -> false in
  [ ("targets", BackendSpec.targets_ok prev op r next);
    (* a Publish refused with ErrQueueFull has changed nothing *)
    ("queue_full_atomic", BackendSpec.refused_ok prev op r next);
    ("live_copy", BackendSpec.live_copy_ok prev op r next);
    ((if retained_head then "cap" else "qos"), BackendSpec.qos_ok prev op r next);
    ("resub", BackendSpec.resub_ok prev op r next);
    ("unsub", BackendSpec.unsub_ok prev op r next);
    (* the retained map follows the accepted publishes; a closing connection's publish (its will) is never refused,
       so a retained will is always stored *)
    ("retained", BackendSpec.retained_ok prev op r next && BackendSpec.retained_wf next &&
                 BackendSpec.closing_accepted_ok prev op r next);
    ("closing_accepted", BackendSpec.closing_accepted_ok prev op r next);
    (* replays come only from a Subscribe of the connection: a resumed stored session starts with an empty temporary queue *)
    ("replay", BackendSpec.replay_ok prev op r next && BackendC13.resume_clean_ok prev op r next);
    (* delivery log, judged on this step alone: queued messages stay until dequeued, whatever Subscribe/Unsubscribe do *)
    ("delivery", BackendLog.delivery_ok prev op r next);
    (* everything else is unchanged: subscriptions, active connections, which sessions exist *)
    ("frame", BackendFrame.frame_ok prev op r next);
    ("handover", BackendC13.handover_ok prev op r next);
    (* backend side of C08 *)
    ("offline_queue", BackendC08.offline_queue_ok prev op r next);
    ("session_present", BackendC08.session_present_ok prev op r next);
    (* C13 uniqueness invariant: every state of every history *)
    ("unique", BackendC13.unique_ok next) ]
