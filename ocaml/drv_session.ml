(* drv_c18.ml — runs Ids / Store models on the harness file.
   lines:  ctr <s> <id1> <id2>            two consecutive NextID from state s (implementation)
           hist <n> <op> <op> ...         N | S<d>=<pkt> | L<d>=<id> | D<d>=<id> | A<d> | R    d = i|o
           impl <n> <out> <out> ...       id=<n> | u | p=<pkt|nil> | a=<pkt>/<pkt>/… (a= for empty) *)
open Conv
module L = Stdlib.List
module S = Stdlib.String

let dir_of c = if c = 'i' then Store.Incoming else Store.Outgoing
let op_of_s (s : string) : Store.sop =
  let arg () = S.sub s 3 (S.length s - 3) in
  match s.[0] with
  | 'N' -> Store.ONextID
  | 'R' -> Store.OReset
  | 'S' -> Store.OSave (dir_of s.[1], packet_of_s (arg ()))
  | 'L' -> Store.OLookup (dir_of s.[1], n_of_string (arg ()))
  | 'D' -> Store.ODelete (dir_of s.[1], n_of_string (arg ()))
  | 'A' -> Store.OAll (dir_of s.[1])
  | _ -> failwith ("bad op " ^ s)
let s_of_out (o : Store.sout) : string = match o with
  | Store.RId i -> "id=" ^ string_of_n i
  | Store.RUnit -> "u"
  | Store.RPacket p -> "p=" ^ s_of_opt_packet p
  | Store.RAll ps -> "a=" ^ S.concat "/" (L.map s_of_packet ps)

let run_mode exact path =
  let hists = Hashtbl.create 1024 in
  let bad = ref 0 and n = ref 0 and distinct = ref 0 in
  let seen = Hashtbl.create 4096 in
  L.iter (fun line -> match words line with
    | "ctr" :: s :: id1 :: id2 :: _ ->
      incr n;
      let st = n_of_string s in
      let m1 = string_of_n (Ids.nth_id st Datatypes.O) and m2 = string_of_n (Ids.nth_id st (Datatypes.S Datatypes.O)) in
      if m1 <> id1 || m2 <> id2 then begin incr bad;
        Printf.printf "diff ctr %s model=%s,%s impl=%s,%s\n" s m1 m2 id1 id2 end
    | "conc" :: s :: total :: ids ->
      incr n;
      let (mids, _) = Ids.take_ids (n_of_string s) (nat_of_int (int_of_string total)) in
      let ms = L.sort compare (L.map int_of_n mids) in
      let is = L.map int_of_string ids in
      if ms <> is then begin incr bad;
        (* property clause on the implementation's own observation: non-zero, pairwise distinct within 65535 allocations *)
        let rec dup = function a :: (b :: _ as t) -> if a = b then Some a else dup t | _ -> None in
        let zero = L.mem 0 is in
        (match dup is, zero with
         | Some d, _ when L.length is <= 65535 ->
           Printf.printf "propfail conc start=%s total=%s id %d handed out twice to concurrent callers\n" s total d
         | _, true -> Printf.printf "propfail conc start=%s total=%s id 0 handed out to a concurrent caller\n" s total
         | _ -> Printf.printf "diff conc start=%s total=%s ids handed out concurrently are not the model's window\n" s total) end
    | "hist" :: k :: ops -> Hashtbl.replace hists k ops
    | "impl" :: k :: outs ->
      incr n;
      let ops = L.map op_of_s (Hashtbl.find hists k) in
      let (_, mouts) = Store.sess_run Store.session_new ops in
      let ms = L.map s_of_out mouts in
      (* C18 does not fix the listing order (C15 does): compare a= as sets *)
      let canon o = if (not exact) && S.length o >= 2 && S.sub o 0 2 = "a=" then
          "a=" ^ S.concat "/" (L.sort compare (split '/' (S.sub o 2 (S.length o - 2)))) else o in
      let isid o = S.length o >= 3 && S.sub o 0 3 = "id=" in
      let cm = L.map canon ms and ci = L.map canon outs in
      if cm <> ci then begin incr bad;
        let store_differs = L.length cm <> L.length ci ||
          L.exists2 (fun a b -> a <> b && not (isid a && isid b)) cm ci in
        Printf.printf "%s hist %s model=%s impl=%s\n" (if store_differs then "propfail" else "diff") k (S.concat " " ms) (S.concat " " outs) end;
      let nontriv = L.exists (fun o -> S.length o > 1 && o.[0] = 'S') (Hashtbl.find hists k) in
      if nontriv then begin
        let key = S.concat " " (Hashtbl.find hists k) in
        if not (Hashtbl.mem seen key) then (Hashtbl.replace seen key (); incr distinct) end
    | _ -> ()) (read_lines path);
  Printf.printf "done cases=%d diffs=%d distinct=%d\n" !n !bad !distinct

let () = register "c18" (run_mode false)
(* C15: the listing order itself is compared (first-save order) *)
let () = register "c15store" (run_mode true)
