(* drv_misc.ml — runs the coq/Misc models on the exchange files of go/cmd/misc.

   keepalive:
     ka <max> <ka> <pp> <ps> <im> <tt> | <max'> <timeout> <pp'> <ps'> <im'> <tt'> <n>
     tok pub|sub|inf <setting> | <count> <error>
*)
open Conv
open BinNums
module L = Stdlib.List
module S = Stdlib.String

(* decimal string <-> Z *)
let z_of_string (s : string) : coq_Z =
  if s = "0" || s = "-0" then Z0
  else if S.length s > 0 && s.[0] = '-' then
    (match n_of_string (S.sub s 1 (S.length s - 1)) with N0 -> Z0 | Npos p -> Zneg p)
  else (match n_of_string s with N0 -> Z0 | Npos p -> Zpos p)
let string_of_z (z : coq_Z) : string = match z with
  | Z0 -> "0" | Zpos p -> string_of_n (Npos p) | Zneg p -> "-" ^ string_of_n (Npos p)

let count_distinct () =
  let seen = Hashtbl.create 4096 in
  let k = ref 0 in
  (fun key -> if not (Hashtbl.mem seen key) then (Hashtbl.replace seen key (); incr k)), k

(* ---------------------------------------------------------------- keepalive *)
let run_keepalive path =
  let n = ref 0 and bad = ref 0 in
  let note, distinct = count_distinct () in
  L.iter (fun line -> match words line with
    | ["ka"; m; ka; pp; ps; im; tt; "|"; m'; t'; pp'; ps'; im'; tt'; cnt] ->
      incr n;
      let s = KeepAlive.connect_settings (z_of_string m) (n_of_string ka) (z_of_string pp) (z_of_string ps)
          (z_of_string im) (z_of_string tt) in
      let model = S.concat " " [string_of_n s.KeepAlive.s_max_keep_alive; string_of_z s.KeepAlive.s_read_timeout;
                                string_of_n s.KeepAlive.s_publishes; string_of_n s.KeepAlive.s_subscribes;
                                string_of_n s.KeepAlive.s_inflight; string_of_z s.KeepAlive.s_token_timeout; "1"] in
      let impl = S.concat " " [m'; t'; pp'; ps'; im'; tt'; cnt] in
      let key = S.concat " " [m; ka; pp; ps; im; tt] in
      note key;
      if model <> impl then begin
        incr bad;
        (* the property clauses on the implementation's own observation: the read timeout is positive and,
           for a maximum below 2^53 ns, is 1.5 x the enforced keep alive *)
        let small = (match z_of_string m with Zpos _ -> Z.lt (Z.of_string m) (Z.shift_left Z.one 53) | _ -> true) in
        let ti = Z.of_string t' in
        if small && Z.leq ti Z.zero then
          Printf.printf "propfail ka_positive %s read timeout %s is not positive (no deadline would be armed)\n" (S.concat "," [m; ka; pp; ps; im; tt]) t'
        else if small && t' <> string_of_z s.KeepAlive.s_read_timeout then
          Printf.printf "propfail ka_formula %s read timeout %s, expected %s = 1.5 x enforced keep alive %s\n"
            (S.concat "," [m; ka; pp; ps; im; tt]) t' (string_of_z s.KeepAlive.s_read_timeout)
            (string_of_n (KeepAlive.eff_keep_alive (z_of_string m) (n_of_string ka)))
        else if [m'; pp'; ps'; im'; tt'] <> [string_of_n s.KeepAlive.s_max_keep_alive; string_of_n s.KeepAlive.s_publishes;
                 string_of_n s.KeepAlive.s_subscribes; string_of_n s.KeepAlive.s_inflight; string_of_z s.KeepAlive.s_token_timeout] then
          Printf.printf "propfail ka_defaults %s client fields after CONNECT: max=%s pp=%s ps=%s inflight=%s token-timeout=%s, documented defaults give %s\n"
            (S.concat "," [m; ka; pp; ps; im; tt]) m' pp' ps' im' tt' model
        else if cnt <> "1" then
          Printf.printf "propfail ka_once %s SetReadTimeout called %s times during CONNECT handling\n" (S.concat "," [m; ka; pp; ps; im; tt]) cnt
        else
          Printf.printf "diff ka %s model=%s impl=%s\n" (S.concat "," [m; ka; pp; ps; im; tt]) model impl
      end
    | ["tok"; kind; setting; "|"; count; err] ->
      incr n;
      note ("tok " ^ kind ^ setting);
      let want = string_of_n (KeepAlive.eff_count (z_of_string setting)) in
      if want <> count || err <> "token-timeout" then begin
        incr bad;
        Printf.printf "propfail ka_tokens %s,%s %s back-end calls before the token timeout (%s), expected %s\n" kind setting count err want
      end
    | _ -> ()) (read_lines path);
  Printf.printf "done cases=%d diffs=%d distinct=%d\n" !n !bad !distinct

let () = register "keepalive" run_keepalive
(* ---------------------------------------------------------------- engine
   eng <n> <limit> <delay> <timeout> <handler> | <ops> | <events> *)
let ev_of_s (t : string) : Engine.ev =
  match split ':' t with
  | ["HC"; c] -> Engine.EHandleCall (n_of_string c)
  | ["HR"; c; b] -> Engine.EHandleRet (n_of_string c, bool_of_s b)
  | ["L"; c; v] -> Engine.ELimit (n_of_string c, z_of_string v)
  | ["D"; c; v] -> Engine.EDelay (n_of_string c, z_of_string v)
  | ["T"; c; v] -> Engine.ETimeout (n_of_string c, z_of_string v)
  | ["CC"; c] -> Engine.ECClose (n_of_string c)
  | ["R"; c] -> Engine.ERecv (n_of_string c)
  | ["AC"; a] -> Engine.EAcceptCall (n_of_string a)
  | ["AP"; a] -> Engine.EAcceptPanic (n_of_string a)
  | ["SA"; a] -> Engine.ESrvAccept (n_of_string a)
  | ["SC"; a; c] -> Engine.ESrvConn (n_of_string a, n_of_string c)
  | ["SE"; a] -> Engine.ESrvErr (n_of_string a)
  | ["OE"; a] -> Engine.EOnError (n_of_string a)
  | ["XC"] -> Engine.ECloseCall
  | ["XR"] -> Engine.ECloseRet
  | ["Q"] -> Engine.EQuiet
  | _ -> failwith ("bad engine event " ^ t)

let clause_names = ["eng_no_start_after_close"; "eng_handle_after_close"; "eng_settings_before_receive";
                    "eng_stops_at_error"; "eng_error_reported"; "eng_onerror_justified"]

let rec split_bar (ws : string list) : string list list =
  match ws with
  | [] -> [[]]
  | "|" :: t -> [] :: split_bar t
  | w :: t -> (match split_bar t with h :: r -> (w :: h) :: r | [] -> [[w]])

let run_engine path =
  let n = ref 0 and bad = ref 0 in
  let note, distinct = count_distinct () in
  L.iter (fun line -> match words line with
    | "eng" :: k :: lim :: d :: t :: h :: "|" :: rest ->
      incr n;
      let ops, evs = (match split_bar rest with [o; e] -> o, e | [o] -> o, [] | _ -> failwith "bad eng line") in
      let g = { Engine.g_limit = z_of_string lim; Engine.g_delay = z_of_string d; Engine.g_timeout = z_of_string t;
                Engine.g_handler = bool_of_s h } in
      let es = L.map ev_of_s evs in
      if L.exists (fun o -> o = "X" || o.[0] = 'A') ops then note (S.concat " " ops ^ h);
      let clauses = Engine.engine_clauses g es in
      let failed = L.filter_map (fun (nm, b) -> if b then None else Some nm) (L.combine clause_names clauses) in
      (match failed with
       | nm :: _ ->
         incr bad;
         Printf.printf "propfail %s eng,%s the observed trace violates the clause: %s\n" nm k (S.concat " " evs)
       | [] ->
         (match Engine.erun g Engine.e_init es with
          | Some _ -> ()
          | None ->
            incr bad;
            let i = int_of_nat (Engine.eaccepted g Engine.e_init es) in
            Printf.printf "diff engine eng,%s monitor rejects event %d (%s) of: %s\n" k i (L.nth evs i) (S.concat " " evs)))
    | _ -> ()) (read_lines path);
  Printf.printf "done cases=%d diffs=%d distinct=%d\n" !n !bad !distinct

let () = register "engine" run_engine

(* ---------------------------------------------------------------- dispatch
   dial <scheme> | r r r r      port <scheme> | cfg=<..> doc=<..>      launch <scheme> | <type> <tls> <rt>  or  <class> *)
let kname = function Dispatch.KNet -> "net" | Dispatch.KTls -> "tls" | Dispatch.KWs -> "ws" | Dispatch.KWss -> "wss"
let srvname = function Dispatch.KNet -> "tcp" | Dispatch.KTls -> "tls" | Dispatch.KWs -> "ws" | Dispatch.KWss -> "wss"
let written_of_tok t = if t = "NOSCHEME" then None else Some (bytes_of_hex t)

let run_dispatch path =
  let n = ref 0 and bad = ref 0 and unobserved = ref 0 in
  let note, distinct = count_distinct () in
  let dialed = Hashtbl.create 256 in
  let cfg4 = { Dispatch.p_tcp = Some (n_of_int 1); Dispatch.p_tls = Some (n_of_int 2);
               Dispatch.p_ws = Some (n_of_int 3); Dispatch.p_wss = Some (n_of_int 4) } in
  L.iter (fun line -> match words line with
    | "dial" :: t :: "|" :: rs ->
      incr n; note t;
      let o = Dispatch.dial_outcome (written_of_tok t) in
      let want = (match o with
        | Dispatch.OParseError -> ["parse"; "parse"; "parse"; "parse"]
        | Dispatch.OUnsupported -> ["unsupported"; "unsupported"; "unsupported"; "unsupported"]
        | Dispatch.OKind k -> L.map (fun srv -> match Dispatch.reaches k srv with Some k' -> kname k' | None -> "fail") Dispatch.all_carriers) in
      Hashtbl.replace dialed t rs;
      if want <> rs then begin
        incr bad;
        (* the implementation's own observation: connections of two different kinds for one scheme *)
        let ks = L.sort_uniq compare (L.filter (fun r -> L.mem r ["net"; "tls"; "ws"; "wss"]) rs) in
        if L.length ks > 1 then
          Printf.printf "propfail dsp_one_kind dial,%s one scheme produced connections of kinds %s\n" t (S.concat "," ks)
        else Printf.printf "diff dial dial,%s model=%s impl=%s\n" t (S.concat " " want) (S.concat " " rs)
      end
    | ["port"; t; "|"; cfg; doc] ->
      incr n;
      let o = Dispatch.dial_outcome (written_of_tok t) in
      let wcfg, wdoc = (match o with
        | Dispatch.OParseError -> "parse", "parse"
        | Dispatch.OUnsupported -> "unsupported", "unsupported"
        | Dispatch.OKind k ->
          (match int_of_n (Dispatch.default_port cfg4 k) with 1 -> "tcp" | 2 -> "tls" | 3 -> "ws" | 4 -> "wss" | _ -> "?"),
          string_of_n (Dispatch.default_port Dispatch.no_ports k)) in
      let doc' = S.sub doc 4 (S.length doc - 4) and cfg' = S.sub cfg 4 (S.length cfg - 4) in
      if doc' = "unknown" then incr unobserved;
      if cfg' <> wcfg || (doc' <> "unknown" && doc' <> wdoc) then begin
        incr bad;
        (match o with
         | Dispatch.OKind _ when doc' <> "unknown" && doc' <> wdoc && L.for_all (fun ch -> ch >= '0' && ch <= '9') (L.of_seq (S.to_seq doc')) ->
           Printf.printf "propfail dsp_default_port port,%s default port %s, documented %s\n" t doc' wdoc
         | _ -> Printf.printf "diff port port,%s model=cfg=%s,doc=%s impl=%s,%s\n" t wcfg wdoc cfg doc)
      end
    | "launch" :: t :: "|" :: rs ->
      incr n;
      let o = Dispatch.launch_outcome (written_of_tok t) in
      let want = (match o with
        | Dispatch.OParseError -> ["parse"] | Dispatch.OUnsupported -> ["unsupported"]
        | Dispatch.OKind k -> let (ws, tls) = Dispatch.server_shape k in [(if ws then "ws" else "net"); s_of_bool tls; "1"]) in
      if want <> rs then begin
        incr bad;
        (* Dial and Launch disagreeing with each other on the same scheme is a failure by itself *)
        let dial_class = (match Hashtbl.find_opt dialed t with
          | Some ds -> if L.mem "unsupported" ds then "unsupported" else if L.mem "parse" ds then "parse" else "kind" | None -> "?") in
        let launch_class = (match rs with [c] -> c | _ -> "kind") in
        if dial_class <> "?" && dial_class <> launch_class && launch_class <> "fail" then
          Printf.printf "propfail dsp_dial_launch_agree launch,%s Dial says %s, Launch says %s\n" t dial_class launch_class
        else Printf.printf "diff launch launch,%s model=%s impl=%s\n" t (S.concat " " want) (S.concat " " rs)
      end
    | _ -> ()) (read_lines path);
  Printf.printf "done cases=%d diffs=%d distinct=%d unobserved=%d\n" !n !bad !distinct !unobserved

let () = register "dispatch" run_dispatch

(* ---------------------------------------------------------------- pkt
   pk type|qos|cc|id <n> | …        msg <topic> <payload> <qos> <retain> | <string> <equal> <fresh> <indep> *)
let run_pkt path =
  let n = ref 0 and bad = ref 0 and outside = ref 0 in
  let note, distinct = count_distinct () in
  let cmp kind k want got =
    (* the model of these functions is their specification (PKT_* theorems characterise it), so a differing
       table row is a concrete input on which the implementation violates the stated clause *)
    if want <> got then begin incr bad;
      Printf.printf "propfail pkt_%s pk,%s,%s specified=%s implementation=%s\n" kind kind k (S.concat " " want) (S.concat " " got) end in
  L.iter (fun line -> match words line with
    | "pk" :: kind :: k :: "|" :: got ->
      incr n; note (kind ^ k);
      let v = n_of_string k in
      (match kind with
       | "type" -> cmp kind k [s_of_bool (PktMisc.type_valid v); hex_of_bytes (PktMisc.type_string v)] got
       | "qos" -> cmp kind k [s_of_bool (PktMisc.qos_successful v)] got
       | "cc" -> cmp kind k [s_of_bool (PktMisc.connack_valid v); hex_of_bytes (PktMisc.connack_string v)] got
       | "id" -> cmp kind k [s_of_bool (PktMisc.id_valid v)] got
       | _ -> failwith ("bad pk kind " ^ kind))
    | ["msg"; t; p; q; r; "|"; str; equal; fresh; indep] ->
      incr n; note (S.concat " " [t; p; q; r]);
      let m = { Packet.m_topic = bytes_of_hex t; Packet.m_payload = bytes_of_hex p; Packet.m_qos = n_of_string q; Packet.m_retain = bool_of_s r } in
      let id = S.concat "," [t; p; q; r] in
      (* Copy: the model's copy is an equal message; the implementation reported the same about its own *)
      if not (Packet.message_eqb (PktMisc.message_copy m) m) || equal <> "1" || fresh <> "1" || indep <> "1" then begin
        incr bad;
        Printf.printf "propfail pkt_copy_value %s Copy is not an independent equal value (equal=%s fresh=%s independent=%s)\n" id equal fresh indep end;
      (match PktMisc.message_string m with
       | None -> incr outside
       | Some ms -> if hex_of_bytes ms <> str then begin incr bad;
           Printf.printf "diff pkt msg,%s String model=%s impl=%s\n" id (hex_of_bytes ms) str end)
    | _ -> ()) (read_lines path);
  Printf.printf "done cases=%d diffs=%d distinct=%d outside=%d\n" !n !bad !distinct !outside

let () = register "pkt" run_pkt
