(* drv_misc.ml — runs the coq/Misc models on the exchange files of go/cmd/misc.

   keepalive:
     ka <max> <ka> <pp> <ps> <im> <tt> | <max'> <timeout> <pp'> <ps'> <im'> <tt'> <n>
     tok pub|sub|inf <setting> | <count> <error>
*)
open Conv
open BinNums
module L = Stdlib.List
module S = Stdlib.String

(* decimal string <-> Z *)
let z_of_string (s : string) : coq_Z =
  if s = "0" || s = "-0" then Z0
  else if S.length s > 0 && s.[0] = '-' then
    (match n_of_string (S.sub s 1 (S.length s - 1)) with N0 -> Z0 | Npos p -> Zneg p)
  else (match n_of_string s with N0 -> Z0 | Npos p -> Zpos p)
let string_of_z (z : coq_Z) : string = match z with
  | Z0 -> "0" | Zpos p -> string_of_n (Npos p) | Zneg p -> "-" ^ string_of_n (Npos p)

let count_distinct () =
  let seen = Hashtbl.create 4096 in
  let k = ref 0 in
  (fun key -> if not (Hashtbl.mem seen key) then (Hashtbl.replace seen key (); incr k)), k

(* ---------------------------------------------------------------- keepalive *)
let run_keepalive path =
  let n = ref 0 and bad = ref 0 in
  let note, distinct = count_distinct () in
  L.iter (fun line -> match words line with
    | ["ka"; m; ka; pp; ps; im; tt; "|"; m'; t'; pp'; ps'; im'; tt'; cnt] ->
      incr n;
      let s = KeepAlive.connect_settings (z_of_string m) (n_of_string ka) (z_of_string pp) (z_of_string ps)
          (z_of_string im) (z_of_string tt) in
      let model = S.concat " " [string_of_n s.KeepAlive.s_max_keep_alive; string_of_z s.KeepAlive.s_read_timeout;
                                string_of_n s.KeepAlive.s_publishes; string_of_n s.KeepAlive.s_subscribes;
                                string_of_n s.KeepAlive.s_inflight; string_of_z s.KeepAlive.s_token_timeout; "1"] in
      let impl = S.concat " " [m'; t'; pp'; ps'; im'; tt'; cnt] in
      let key = S.concat " " [m; ka; pp; ps; im; tt] in
      note key;
      if model <> impl then begin
        incr bad;
        (* the property clauses on the implementation's own observation: the read timeout is positive and,
           for a maximum below 2^53 ns, is 1.5 x the enforced keep alive *)
        let small = (match z_of_string m with Zpos _ -> Z.lt (Z.of_string m) (Z.shift_left Z.one 53) | _ -> true) in
        let ti = Z.of_string t' in
        if small && Z.leq ti Z.zero then
          Printf.printf "propfail ka_positive %s read timeout %s is not positive (no deadline would be armed)\n" (S.concat "," [m; ka; pp; ps; im; tt]) t'
        else if small && t' <> string_of_z s.KeepAlive.s_read_timeout then
          Printf.printf "propfail ka_formula %s read timeout %s, expected %s = 1.5 x enforced keep alive %s\n"
            (S.concat "," [m; ka; pp; ps; im; tt]) t' (string_of_z s.KeepAlive.s_read_timeout)
            (string_of_n (KeepAlive.eff_keep_alive (z_of_string m) (n_of_string ka)))
        else if cnt <> "1" then
          Printf.printf "propfail ka_once %s SetReadTimeout called %s times during CONNECT handling\n" (S.concat "," [m; ka; pp; ps; im; tt]) cnt
        else
          Printf.printf "diff ka %s model=%s impl=%s\n" (S.concat "," [m; ka; pp; ps; im; tt]) model impl
      end
    | ["tok"; kind; setting; "|"; count; err] ->
      incr n;
      note ("tok " ^ kind ^ setting);
      let want = string_of_n (KeepAlive.eff_count (z_of_string setting)) in
      if want <> count || err <> "token-timeout" then begin
        incr bad;
        Printf.printf "propfail ka_tokens %s,%s %s back-end calls before the token timeout (%s), expected %s\n" kind setting count err want
      end
    | _ -> ()) (read_lines path);
  Printf.printf "done cases=%d diffs=%d distinct=%d\n" !n !bad !distinct

let () = register "keepalive" run_keepalive
(* TMPSTUBS *)
let () = L.iter (fun c -> register c (fun _ -> print_endline "done cases=0 diffs=0 distinct=0")) ["engine"; "dispatch"; "pkt"]
