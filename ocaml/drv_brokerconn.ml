(* drv_brokerconn.ml — conformance of observed broker-connection traces with the
   extracted monitor coq/Broker/Conn.v, and evaluation of the trace specifications. *)
open Conv
module L = Stdlib.List
module S = Stdlib.String

let n_ s = n_of_string s
let okb s = (s = "ok")
let dir_of s = if s = "i" then Store.Incoming else Store.Outgoing
let msg_of s = Conv.msg_of_s s
let subs_of s = if s = "" then [] else
  L.map (fun x -> match split ',' x with [t; q] -> (bytes_of_hex t, n_ q) | _ -> failwith "bad sub") (split ';' s)
let kind_of = function
  | "transport" -> Conn.KTransport | "session" -> Conn.KSession | "backend" -> Conn.KBackend | _ -> Conn.KClient

let event_of (w : string list) : Conn.event option =
  match w with
  | ["NewConn"] -> Some Conn.ENewConn
  | ["Rx"; g; p] -> Some (Conn.ERx (n_ g, packet_of_s p))
  | ["RxErr"; g] -> Some (Conn.ERxErr (n_ g))
  | ["Tx"; g; p; a; r] -> Some (Conn.ETx (n_ g, packet_of_s p, a = "1", okb r))
  | ["ConnClose"; g] -> Some (Conn.EConnClose (n_ g))
  | ["Auth"; g; r] -> Some (Conn.EAuth (n_ g, (match r with "ok" -> Conn.AOk | "deny" -> Conn.ADeny | _ -> Conn.AErr)))
  | ["Setup"; g; "err"] -> Some (Conn.ESetup (n_ g, Conn.SErr))
  | ["Setup"; g; "ok"; r; f; w; pp; ps] -> Some (Conn.ESetup (n_ g, Conn.SOk (r = "1", f = "1", n_ w, n_ pp, n_ ps)))
  | ["Restore"; g; r] -> Some (Conn.ERestore (n_ g, okb r))
  | ["Sub"; g; subs; k] -> Some (Conn.ESub (n_ g, subs_of subs, n_ k))
  | ["SubRet"; g; r] -> Some (Conn.ESubRet (n_ g, okb r))
  | ["Unsub"; g; ts; k] -> Some (Conn.EUnsub (n_ g, L.map bytes_of_hex (split ',' ts), n_ k))
  | ["UnsubRet"; g; r] -> Some (Conn.EUnsubRet (n_ g, okb r))
  | ["Pub"; g; m; k] -> Some (Conn.EPub (n_ g, msg_of m, (if k = "-" then None else Some (n_ k))))
  | ["PubRet"; g; r] -> Some (Conn.EPubRet (n_ g, okb r))
  | ["DeqCall"; g] -> Some (Conn.EDeqCall (n_ g))
  | ["DeqRet"; g; "none"] -> Some (Conn.EDeqRet (n_ g, Conn.QNone))
  | ["DeqRet"; g; "err"] -> Some (Conn.EDeqRet (n_ g, Conn.QErr))
  | ["DeqRet"; g; "msg"; m; ba] -> Some (Conn.EDeqRet (n_ g, Conn.QMsg (msg_of m, ba = "1")))
  | ["DeqAck"; g] -> Some (Conn.EDeqAck (n_ g))
  | ["Term"; g; r] -> Some (Conn.ETerm (n_ g, okb r))
  | ["AckCall"; k; g] -> Some (Conn.EAckCall (n_ k, n_ g))
  | ["AckRet"; k; g] -> Some (Conn.EAckRet (n_ k, n_ g))
  | ["NextId"; g; id] -> Some (Conn.ENextId (n_ g, n_ id))
  | ["Save"; g; d; p; r] -> Some (Conn.ESave (n_ g, dir_of d, packet_of_s p, okb r))
  | ["Lookup"; g; d; id; "err"] -> Some (Conn.ELookup (n_ g, dir_of d, n_ id, Conn.LErr))
  | ["Lookup"; g; d; id; p] -> Some (Conn.ELookup (n_ g, dir_of d, n_ id, Conn.LRes (opt_packet_of_s p)))
  | ["Delete"; g; d; id; r] -> Some (Conn.EDelete (n_ g, dir_of d, n_ id, okb r))
  | ["All"; g; d; "err"] -> Some (Conn.EAll (n_ g, dir_of d, None))
  | ["All"; g; d; "ok"] -> Some (Conn.EAll (n_ g, dir_of d, Some []))
  | ["All"; g; d; "ok"; ps] -> Some (Conn.EAll (n_ g, dir_of d, Some (L.map packet_of_s (split '/' ps))))
  | ["Die"; g; k] -> Some (Conn.EDie (n_ g, kind_of k))
  | ["CloseReq"] -> Some Conn.ECloseReq
  | ["Closed"] -> Some Conn.EClosed
  | ["Quiescent"] -> Some Conn.EQuiescent
  | _ -> None

let run path =
  let cur = ref [] and desc = ref "" and fam = ref "" in
  let n = ref 0 and bad = ref 0 and nev = ref 0 and pf = ref 0 in
  let seen = Hashtbl.create 4096 and distinct = ref 0 in
  let finish k =
    incr n;
    let evs = L.rev !cur in
    (* conformance: run the monitor, report the first rejected event *)
    let rec go s i = function
      | [] -> None
      | (line, None) :: _ -> Some (i, line, "unparsable event")
      | (line, Some e) :: rest ->
        (match Conn.step s e with
         | Some s' -> go s' (i + 1) rest
         | None -> Some (i, line, "event not enabled in the model")) in
    (match go Conn.bc_init 0 evs with
     | None -> ()
     | Some (i, line, why) -> incr bad;
       Printf.printf "diff %s seq=%d %s: %s | %s\n" k i why line (if S.length !desc > 160 then S.sub !desc 0 160 else !desc));
    nev := !nev + L.length evs;
    (* the trace specifications (extracted from coq/Broker/ConnSpec.v) judged on the observed trace *)
    let pevs = L.filter_map (fun (_, e) -> e) evs in
    let clauses = [
      "c20_gate", ConnSpec.c20_gate; "c20_single_connack", ConnSpec.c20_single_connack;
      "c20_responses", ConnSpec.c20_responses;
      "c07_pubrec_after_store", ConnSpec.c07_pubrec_after_store;
      "c07_no_publish_after_release", ConnSpec.c07_no_publish_after_release;
      "c07_single_ack", ConnSpec.c07_single_ack;
      "c07_pubrel_answered", ConnSpec.c07_pubrel_answered;
      "c08_store_before_send", ConnSpec.c08_store_before_send; "c08_kept_until_acked", ConnSpec.c08_kept_until_acked;
      "c08_resend", ConnSpec.c08_resend; "c08_no_second_new", ConnSpec.c08_no_second_new;
      "c16_bound", ConnSpec.c16_bound; "c12_will", ConnSpec.c12_will;
      "c15_in_order", ConnSpec2.c15_in_order; "c15_release_intact", ConnSpec2.c15_release_intact;
      "c15_resend_order", ConnSpec2.c15_resend_order; "c15_dequeue_order", ConnSpec2.c15_dequeue_order;
      "c15_resend_first", ConnSpec5.c15_resend_first;
      "c14_lifecycle", ConnSpec5.c14_lifecycle2; "c06_forward_intact", ConnSpec5.c06_forward_intact;
      "c08_popped_is_saved", ConnSpec3.c08_popped_is_saved; "c08_pubrel_after_store", ConnSpec3.c08_pubrel_after_store;
      "c20_tokens", ConnSpec3.c20_tokens; "c16_slots_not_lost", ConnProofsCDefs.c16_slots_not_lost2;
      (* added by the audit (coq/Broker/ConnSpec6.v) *)
      "c07_release_in_ack", ConnSpec6.c07_release_in_ack; "c20_acted_on", ConnSpec6.c20_acted_on;
      "c20_closes", ConnSpec6.c20_closes; "c16_quiescent_dequeuing", ConnSpec6.c16_quiescent_dequeuing;
      "c08_deqack_after_store", ConnSpec6.c08_deqack_after_store; "c08_store_replica", ConnSpec6.c08_store_replica;
      (* the two connection-wide links of the end-to-end composition (coq/Broker/EndToEnd.v, Props/C15_e2e.v) *)
      "c15_forward_link", EndToEnd.forward_link; "c15_arrival_link", EndToEnd.arrival_link;
      (* conservation ledger of dequeued QoS>0 messages (coq/Broker/ConnSpec7.v, Props/C08_ledger.v) *)
      "c08_ledger", ConnSpec7.c08_ledger;
      (* the hand-over of the will as the end-to-end composition needs it (coq/Broker/WillE2E.v, Props/C12_e2e.v) *)
      "c12_will_link", WillE2E.will_link ] in
    L.iter (fun (name, f) ->
      if not (f pevs) then begin
        (* shortest failing prefix = position of the offending event *)
        let rec first i = if i > L.length pevs then i else
            if not (f (L.filteri (fun j _ -> j < i) pevs)) then i else first (i + 1) in
        let i = first 1 in
        let line = (try fst (L.nth evs (i - 1)) with _ -> "?") in
        let extra = if name = "c07_single_ack" || name = "c07_no_publish_after_release"
          then (if ConnSpec.prompt_acks pevs then " prompt_acks=true" else " prompt_acks=false")
          else if name = "c16_bound"
          then (if ConnProofsCDefs.c16_window_const pevs then " window_const=true" else " window_const=false") else "" in
        incr pf;
        Printf.printf "propfail %s %s seq=%d%s at: %s | %s\n" k name (i - 1) extra line (if S.length !desc > 200 then S.sub !desc 0 200 else !desc)
      end) clauses;
    (* distinct non-trivial traces: by the sequence of event kinds with goroutine numbers removed *)
    if L.length evs > 6 then begin
      let key = S.concat " " (L.map (fun (line, _) -> match words line with w :: _ -> w | [] -> "") evs) ^ !fam in
      if not (Hashtbl.mem seen key) then (Hashtbl.replace seen key (); incr distinct) end;
    cur := [] in
  L.iter (fun line ->
    match words line with
    | "scn" :: _ :: f :: _ -> fam := f; desc := line
    | "ev" :: _ :: "Watchdog" :: _ -> ()
    | "ev" :: _ :: w -> cur := (S.concat " " w, event_of w) :: !cur
    | "end" :: k :: _ -> finish k
    | _ -> ()) (read_lines path);
  Printf.printf "done cases=%d diffs=%d distinct=%d events=%d propfails=%d\n" !n !bad !distinct !nev !pf

let () = register "bc" run
