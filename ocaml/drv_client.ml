(* drv_client.ml — runs the extracted CL monitor (Client.step) over the traces observed on
   client.Client by go/cmd/client, for C09 ("c09") and C10 ("c10").

   exchange file:
     scn <n> <name...>
     ev <n> <seq> <thread> <event...>     observable event, see event_of_words
     mark <n> <seq> settle|end            the harness considers the incarnation settled / the scenario finished
     end <n> quiescent|watchdog
   The model has hidden events (reads/writes of the client's own shared variables); the driver
   searches for a placement of them that makes the model accept the observed sequence
   (depth-first, observed event first, failures memoised).  If there is none:
     diff <n> seq=<seq> <event> not enabled ...
   Along the accepting run the property predicates extracted from Coq are evaluated after every
   event:  propfail <n> <clause> seq=<seq> <detail> *)
open Conv
module L = Stdlib.List
module S = Stdlib.String
module C = Client

let res_of_s = function "ok" -> C.Ok | "fail" -> C.Fail | s -> failwith ("bad res " ^ s)
let who_of_s = function "a" -> C.WApi | "i" -> C.WInt | s -> failwith ("bad who " ^ s)
let dir_of_s = function "i" -> Store.Incoming | "o" -> Store.Outgoing | s -> failwith ("bad dir " ^ s)

let config_of_s (s : string) : C.config =
  let b i = s.[i] = '1' in
  { C.cf_clean = b 0; cf_early = b 1; cf_validate = b 2; cf_keepalive = b 3; cf_callback = b 4 }

let event_of_words (w : string list) : C.event =
  match w with
  | ["new"; p] -> C.ENew (bool_of_s p)
  | ["call"; c; "connect"; cfg] -> C.EApiCall (n_of_string c, C.CConnect (config_of_s cfg))
  | ["call"; c; "pub"; m] -> C.EApiCall (n_of_string c, C.CReq (C.RPub (msg_of_s m)))
  | ["call"; c; "sub"; p] ->
    (match packet_of_s p with
     | Packet.Subscribe (_, subs) -> C.EApiCall (n_of_string c, C.CReq (C.RSub subs))
     | _ -> failwith "bad sub")
  | ["call"; c; "uns"; p] ->
    (match packet_of_s p with
     | Packet.Unsubscribe (_, ts) -> C.EApiCall (n_of_string c, C.CReq (C.RUns ts))
     | _ -> failwith "bad uns")
  | ["call"; c; "disc"; t] -> C.EApiCall (n_of_string c, C.CDisconnect (bool_of_s t))
  | ["call"; c; "close"] -> C.EApiCall (n_of_string c, C.CClose)
  | ["ret"; c; r] ->
    C.EApiRet (n_of_string c, (match r with
      | "fut" -> C.RetFut | "nil" -> C.RetNil | "notconnected" -> C.RetNotConnected
      | "already" -> C.RetAlreadyConnecting | "err" -> C.RetErr | _ -> failwith ("bad ret " ^ r)))
  | ["dial"; r] -> C.EDial (res_of_s r)
  | ["rx"; p] -> C.ERx (packet_of_s p)
  | ["rxerr"] -> C.ERxErr
  | ["tx"; p; a; r] -> C.ETx (packet_of_s p, bool_of_s a, res_of_s r)
  | ["connclose"; w; r] -> C.EConnClose (who_of_s w, res_of_s r)
  | ["nextid"; id] -> C.ENextId (n_of_string id)
  | ["save"; d; p; r] -> C.ESave (dir_of_s d, packet_of_s p, res_of_s r)
  | ["lookup"; d; id; r] ->
    C.ELookup (dir_of_s d, n_of_string id, (if r = "err" then None else Some (opt_packet_of_s r)))
  | ["delete"; d; id; r] -> C.EDelete (dir_of_s d, n_of_string id, res_of_s r)
  | ["all"; d; r] ->
    C.EAll (dir_of_s d, (if r = "err" then None else if r = "-" then Some []
                         else Some (L.map packet_of_s (split '/' r))))
  | ["reset"; w; r] -> C.EReset (who_of_s w, res_of_s r)
  | ["cb"; m; r] -> C.ECb (msg_of_s m, res_of_s r)
  | ["cberr"] -> C.ECbErr
  | ["fut"; c; st; sp; rc; codes] ->
    C.EFut (n_of_string c, bool_of_s st, bool_of_s sp, n_of_string rc,
            (if codes = "-" then [] else L.map n_of_string (split ',' codes)))
  | _ -> failwith ("bad event " ^ S.concat " " w)

(* ---- names of control points, for class labels and messages *)
let ppc_name = function
  | C.PNone -> "PNone" | C.PRecv true -> "PRecvFirst" | C.PRecv false -> "PRecv" | C.PErrChk -> "PErrChk"
  | C.PConnack _ -> "PConnack" | C.PConnackCancel _ -> "PConnackCancel" | C.PAll _ -> "PAll"
  | C.PResend _ -> "PResend" | C.PConnDone (_, None) -> "PConnDone" | C.PConnDone (_, Some _) -> "PConnFail" | C.PAckDel _ -> "PAckDel" | C.PAckFut _ -> "PAckFut" | C.PPubCb _ -> "PPubCb"
  | C.PPubAck _ -> "PPubAck" | C.PPubSave _ -> "PPubSave" | C.PPubRec _ -> "PPubRec"
  | C.PRecSave _ -> "PRecSave" | C.PRecSend _ -> "PRecSend" | C.PRelLookup _ -> "PRelLookup"
  | C.PRelCb _ -> "PRelCb" | C.PRelComp _ -> "PRelComp" | C.PRelDel _ -> "PRelDel"
  | C.PInDie -> "PInDie" | C.PExited -> "PExited"
let cu_name = function C.CU1 -> "1" | C.CU2 -> "2" | C.CU3 -> "3" | C.CU4 -> "4" | C.CU5 -> "5"
let apc_name = function
  | None -> "-"
  | Some (_, a) -> (match a with
    | C.AConnDial -> "AConnDial" | C.AConnReset -> "AConnReset" | C.AConnSend -> "AConnSend"
    | C.AReqNext _ -> "AReqNext" | C.AReqPut _ -> "AReqPut" | C.AReqSave _ -> "AReqSave"
    | C.AReqSend _ -> "AReqSend" | C.AReqFin -> "AReqFin" | C.ADiscSet -> "ADiscSet" | C.ADiscSend -> "ADiscSend"
    | C.ACu (cu, _, _, _, e) -> "ACu" ^ cu_name cu ^ (if e then "e" else "") | C.AEndWait _ -> "AEndWait")
let dpc_name = function
  | C.DNone -> "DNone" | C.DCu (cu, _, _) -> "DCu" ^ cu_name cu | C.DCb _ -> "DCb" | C.DDone -> "DDone"
let cs_name = function
  | C.StInit -> "init" | C.StConnecting -> "connecting" | C.StConnacked -> "connacked"
  | C.StConnected -> "connected" | C.StDisconnecting -> "disconnecting" | C.StDisconnected -> "disconnected"
let ptype_name p = L.hd (split ':' (s_of_packet p))
let event_kind = function
  | C.ENew _ -> "new" | C.EApiCall (_, k) -> "call-" ^ (match k with
      | C.CConnect _ -> "connect" | C.CReq (C.RPub _) -> "pub" | C.CReq (C.RSub _) -> "sub"
      | C.CReq (C.RUns _) -> "uns" | C.CDisconnect _ -> "disc" | C.CClose -> "close")
  | C.EApiRet (_, r) -> "ret-" ^ (match r with C.RetFut -> "fut" | C.RetNil -> "nil" | C.RetNotConnected -> "nc"
      | C.RetAlreadyConnecting -> "already" | C.RetErr -> "err")
  | C.EDial _ -> "dial" | C.ERx p -> "rx-" ^ ptype_name p | C.ERxErr -> "rxerr"
  | C.ETx (p, _, r) -> "tx-" ^ ptype_name p ^ (if r = C.Ok then "" else "-fail")
  | C.EConnClose (w, _) -> "connclose-" ^ (if w = C.WApi then "a" else "i")
  | C.ENextId _ -> "nextid" | C.ESave (_, p, r) -> "save-" ^ ptype_name p ^ (if r = C.Ok then "" else "-fail")
  | C.ELookup (_, _, r) -> "lookup-" ^ (match r with None -> "err" | Some None -> "none" | Some (Some _) -> "found")
  | C.EDelete (d, _, r) -> "delete-" ^ (if d = Store.Incoming then "i" else "o") ^ (if r = C.Ok then "" else "-fail")
  | C.EAll (_, r) -> "all" ^ (if r = None then "-err" else "")
  | C.EReset (w, r) -> "reset-" ^ (if w = C.WApi then "a" else "i") ^ (if r = C.Ok then "" else "-fail")
  | C.ECb (_, r) -> "cb" ^ (if r = C.Ok then "" else "-fail") | C.ECbErr -> "cberr"
  | C.EFut (_, c, _, _, _) -> if c then "fut-completed" else "fut-cancelled"
  | C.EHid h -> "hid-" ^ (match h with C.HAcq _ -> "acq" | C.HApi -> "api" | C.HProc -> "proc"
      | C.HDie -> "die" | C.HPingMissing -> "pingmissing")
let state_summary (s : C.st) =
  Printf.sprintf "state=%s api=%s proc=%s die=%s pending=%d" (cs_name s.C.k.C.k_cs) (apc_name s.C.k.C.k_api)
    (ppc_name s.C.k.C.k_ppc) (dpc_name s.C.k.C.k_dpc) (L.length s.C.k.C.k_pending)

type item = Ev of string * string * C.event | Mark of string * string   (* seq, text *)
let is_end_mark = ref (fun (_ : string) -> false)

let hidden_candidates (s : C.st) : C.hid list =
  [C.HProc; C.HDie; C.HApi] @ L.map (fun (c, _) -> C.HAcq c) s.C.k.C.k_pending

let no_hidden_enabled (s : C.st) =
  L.for_all (fun h -> C.step s (C.EHid h) = None) (hidden_candidates s)

(* search: returns the list of (seq, event kind, state-after) of an accepting run, or the deepest point reached *)
let run_scenario (items : item array) =
  let n = Array.length items in
  let failed : (int * C.st, unit) Hashtbl.t = Hashtbl.create 1024 in
  let deepest = ref (-1) and deepest_state = ref C.init in
  let budget = ref 2_000_000 in
  let rec go (s : C.st) (i : int) (acc : (string * C.event option * C.st * C.st) list) =
    if i > !deepest then (deepest := i; deepest_state := s);
    if i = n then Some (L.rev acc)
    else if Hashtbl.mem failed (i, s) || !budget <= 0 then None
    else begin
      decr budget;
      let direct =
        match items.(i) with
        | Ev (seq, _, e) ->
          (match C.step s e with
           | Some s' -> go s' (i + 1) ((seq, Some e, s, s') :: acc)
           | None -> None)
        | Mark (seq, _) ->
          if no_hidden_enabled s then go s (i + 1) ((seq ^ (match items.(i) with Mark (_, "end") -> "!" | _ -> ""), None, s, s) :: acc) else None in
      match direct with
      | Some r -> Some r
      | None ->
        let rec try_h = function
          | [] -> None
          | h :: rest ->
            (match C.step s (C.EHid h) with
             | Some s' ->
               (match go s' i (("h", Some (C.EHid h), s, s') :: acc) with
                | Some r -> Some r
                | None -> try_h rest)
             | None -> try_h rest) in
        let cands = hidden_candidates s @
          (match items.(i) with
           | Ev (_, _, (C.EConnClose (C.WInt, _) | C.EReset (C.WInt, _) | C.ECbErr)) -> [C.HPingMissing]
           | _ -> []) in
        let r = try_h cands in
        if r = None then Hashtbl.replace failed (i, s) ();
        r
    end in
  let r = go C.init 0 [] in
  (r, !deepest, !deepest_state, !budget <= 0)

let run clause_prefix path =
  let scns : (string, (string * item) list ref) Hashtbl.t = Hashtbl.create 1024 in
  let order = ref [] in
  let names = Hashtbl.create 1024 in
  let ends = Hashtbl.create 1024 in
  L.iter (fun line -> match words line with
    | "scn" :: k :: rest -> Hashtbl.replace scns k (ref []); Hashtbl.replace names k (S.concat " " rest); order := k :: !order
    | "ev" :: k :: seq :: _thread :: rest ->
      (match Hashtbl.find_opt scns k with
       | Some l -> l := (seq, Ev (seq, S.concat " " rest, event_of_words rest)) :: !l
       | None -> ())
    | "mark" :: k :: seq :: rest ->
      (match Hashtbl.find_opt scns k with
       | Some l -> l := (seq, Mark (seq, S.concat " " rest)) :: !l
       | None -> ())
    | "end" :: k :: st :: _ -> Hashtbl.replace ends k st
    | _ -> ()) (read_lines path);
  let cases = ref 0 and diffs = ref 0 in
  let classes = Hashtbl.create 4096 in
  L.iter (fun k ->
    incr cases;
    let all_items = L.rev_map snd !(Hashtbl.find scns k) in
    (* the precleanup mark only matters to the clause scanners, not to the monitor *)
    let items = Array.of_list (L.filter (function Mark (_, "precleanup") -> false | _ -> true) all_items) in
    let rest_points = L.filter_map (function Mark (q, "precleanup") -> Some q | _ -> None) all_items in
    (* clause scanners over the observed sequence alone (TraceScan.v): they judge the trace even
       when the monitor does not accept it *)
    let reported = Hashtbl.create 8 in
    let report clause seq detail =
      if not (Hashtbl.mem reported clause) then begin
        Hashtbl.replace reported clause ();
        Printf.printf "propfail %s %s seq=%s %s\n" k clause seq detail end in
    let evs = L.filter_map (function Ev (q, _, e) -> Some (q, e) | Mark _ -> None) (Array.to_list items) in
    let quiescent_end = Hashtbl.find_opt ends k = Some "quiescent" in
    let evs_m = L.filter_map (function Ev (q, _, e) -> Some (q, Some e) | Mark (q, "precleanup") -> Some (q, None) | Mark _ -> None) all_items in
    ignore rest_points;
    let all_events = L.map snd evs in
    (* attribution of a second delivery: known finding only if a PUBCOMP write for this id failed after the
       first delivery and the client was replaced (resume) before the second one *)
    let twice_tag (id : BinNums.coq_N) (upto : string) =
      let rec go seen_cb failed_comp resumed = function
        | [] -> (failed_comp, resumed)
        | (q, e) :: rest ->
          if q = upto then (failed_comp, resumed) else
          (match e with
           | C.ECb (_, C.Ok) -> go true failed_comp resumed rest
           | C.ETx (Packet.Pubcomp i, _, C.Fail) when i = id && seen_cb -> go seen_cb true resumed rest
           | C.ENew _ when failed_comp -> go seen_cb failed_comp true rest
           | _ -> go seen_cb failed_comp resumed rest) in
      let (f, r) = go false false false evs in
      let delfail = L.exists (fun (_, e) -> match e with C.EDelete (Store.Incoming, i, C.Fail) -> i = id | _ -> false) evs in
      if f && r then Some "callback_twice_after_failed_pubcomp"
      else if delfail then None       (* outside the quantifier: the session store failed *)
      else Some "callback_twice" in
    if not (TraceScan.scan_sbs [] all_events) then begin
      let rec first acc = function
        | [] -> "?"
        | (q, e) :: rest -> let acc' = acc @ [e] in if TraceScan.scan_sbs [] acc' then first acc' rest else q in
      report "store_before_send" (first [] evs) "publish_sent_before_saved (trace scan)" end;
    (let rec go x = function
       | [] -> (match x with
                | (TraceScan.XSave id | TraceScan.XTx id) when quiescent_end ->
                  report "kept_until_acked" "end" ("pubrec_unanswered id=" ^ string_of_n id ^ " (trace scan)")
                | _ -> ())
       | (q, e) :: rest ->
         (match TraceScan.pubrec_step x e with
          | Some x' -> go x' rest
          | None -> report "kept_until_acked" q "pubrec_not_followed_by_pubrel (trace scan)") in
     go TraceScan.XInit evs);
    (let rec go x = function
       | [] -> ()
       | (q, e) :: rest ->
         let x' = TraceScan.hs_step x e in
         (match TraceScan.hs_twice x' with
          | Some id ->
            (match twice_tag id q with
             | Some tag -> report "exactly_once" q (tag ^ " id=" ^ string_of_n id ^ " (trace scan)")
             | None -> ())
          | None -> go x' rest) in
     go { TraceScan.hs_tab = []; hs_cur = None } evs);
    (let name_of = function
       | TraceScan.YNone | TraceScan.YInit -> ("qos01", "callback_not_preceded_by_its_packet")
       | TraceScan.YPub (Packet.Publish (_, m, id)) ->
         if int_of_n m.Packet.m_qos = 2 then ("pubrec_always", "publish_qos2_unanswered id=" ^ string_of_n id)
         else ("qos01", "publish_qos1_unanswered id=" ^ string_of_n id)
       | TraceScan.YPub _ -> ("qos01", "publish")
       | TraceScan.YAck id -> ("qos01", "publish_qos1_unanswered id=" ^ string_of_n id)
       | TraceScan.YSave p -> ("pubrec_always", "publish_qos2_not_stored " ^ s_of_packet p)
       | TraceScan.YRec id -> ("pubrec_always", "publish_qos2_unanswered id=" ^ string_of_n id)
       | TraceScan.YRel id -> ("pubrel_answered", "pubrel_not_looked_up id=" ^ string_of_n id)
       | TraceScan.YRelCb (_, _, id) -> ("exactly_once", "pubrel_for_stored_id_without_delivery id=" ^ string_of_n id)
       | TraceScan.YComp (_, id) -> ("pubrel_answered", "pubrel_for_stored_id_unanswered id=" ^ string_of_n id)
       | TraceScan.YDel id -> ("exactly_once", "stored_message_not_deleted id=" ^ string_of_n id) in
     let rec go st y = function
       | [] -> ()
       | (q, e) :: rest ->
         if not (TraceScan.rel_ok st e) then
           (match e with
            | C.ELookup (_, id, Some x) ->
              report "exactly_once" q ("pubrel_lookup_differs_from_what_was_stored id=" ^ string_of_n id ^
                " lookup=" ^ s_of_opt_packet x ^ " stored=" ^ s_of_opt_packet (Store.store_lookup st id) ^
                (if x = None then " stored_publish_never_delivered" else "") ^ " (trace scan)")
            | _ -> ())
         else
         (match TraceScan.ack_step y e with
          | Some y' -> go (TraceScan.rel_step st y e) y' rest
          | None ->
            let (clause, what) =
              match y, e with
              | (TraceScan.YNone | TraceScan.YPub _), C.EDelete (Store.Incoming, id, _) ->
                ("exactly_once", "stored_inbound_message_deleted_outside_its_pubrel id=" ^ string_of_n id)
              | TraceScan.YNone, C.ESave (Store.Incoming, p, _) ->
                ("pubrec_always", "inbound_store_written_outside_a_publish " ^ s_of_packet p)
              | TraceScan.YNone, C.ELookup (_, id, _) ->
                ("pubrel_answered", "lookup_without_pubrel id=" ^ string_of_n id)
              | _ -> name_of y in
            report clause q (what ^ " next_processor_event=" ^ event_kind e ^ " (trace scan)")) in
     go [] TraceScan.YInit evs);
    (* a callback error must leave the connection over wherever the client has come to rest *)
    (let rec go x = function
       | [] -> if quiescent_end && not (TraceScan.error_closes_ok x) then
                 report "error_closes" "end" "callback_error_but_connection_never_closed (trace scan)"
       | (q, None) :: rest ->
         if not (TraceScan.error_closes_ok x) then
           report "error_closes" q "callback_error_but_connection_not_closed_when_the_client_came_to_rest (trace scan)";
         go x rest
       | (_, Some e) :: rest -> go (TraceScan.close_step x e) rest in
     go { TraceScan.cs_failed = false; cs_over = false } evs_m);
    (let rec go l = function
       | [] -> ()
       | (q, e) :: rest ->
         (match TraceScan.order_step l e with
          | Some l' -> go l' rest
          | None -> report "client_in_order" q ("callback_not_for_the_packet_just_received " ^ event_kind e ^ " (trace scan)")) in
     go None evs);
    (let rec go x = function
       | [] -> (match x with
                | TraceScan.RDue (q :: _) when quiescent_end ->
                  report "resend_on_connect" "end" ("listed_packet_not_resent " ^ s_of_packet q ^ " (trace scan)")
                | _ -> ())
       | (q, e) :: rest ->
         (match TraceScan.resend_step x e with
          | Some x' -> go x' rest
          | None ->
            let due = match x with TraceScan.RDue (p :: _) -> s_of_packet p | TraceScan.RConn -> "listing" | _ -> "-" in
            let is_new = (match e with
                | C.ETx (p, _, _) -> TraceScan.api_send p
                | C.ESave (Store.Outgoing, _, _) -> not (TraceScan.proc_obs e)
                | _ -> false) in
            if is_new then begin
              report "resend_before_new" q ("new_request_between_connack_and_last_resend due=" ^ due ^ " event=" ^ event_kind e ^ " (trace scan)");
              (* go on behind it: the re-send itself is still judged *)
              go x rest
            end else
              report "resend_on_connect" q ("listed_packet_not_resent due=" ^ due ^ " next_processor_event=" ^ event_kind e ^ " (trace scan)")) in
     go TraceScan.RInit evs);
    (let rec go x = function
       | [] -> ()
       | (q, e) :: rest ->
         (match TraceScan.kept_step x e with
          | Some x' -> go x' rest
          | None ->
            let what = match e with
              | C.EDelete (_, id, _) -> "outgoing_entry_deleted_without_an_acknowledgement_for_it id=" ^ string_of_n id
              | C.ESave (_, p, _) -> "pubrel_saved_without_pubrec " ^ s_of_packet p
              | _ -> event_kind e in
            report "kept_until_acked" q (what ^ " last_received=" ^ (match x with Some p -> s_of_packet p | None -> "-") ^ " (trace scan)")) in
     go None evs);
    (* the conservation ledger (Client/ClientLedger.v, C09_scan_ledger_sound): every AllPackets(Outgoing) listing
       equals the outgoing store read off the history of successful saves, deletes, resets and DUP re-sends *)
    (let rec go x = function
       | [] -> ()
       | (q, e) :: rest ->
         (match ClientLedger.lscan_step false x e with
          | Some x' -> go x' rest
          | None ->
            (match TraceScan.kept_step x.ClientLedger.lg_last e with
             | None -> ()                       (* the kept scanner above has reported it *)
             | Some _ ->
               let lst l = "[" ^ S.concat ";" (L.map s_of_packet l) ^ "]" in
               let what = match e with
                 | C.EAll (_, Some l) -> "listing_differs_from_the_ledger_of_the_history listed=" ^ lst l ^
                                         " ledger=" ^ lst (Store.store_all x.ClientLedger.lg_store)
                 | _ -> event_kind e in
               report "kept_until_acked" q (what ^ " (ledger scan)"))) in
     go ClientLedger.lscan0 evs);
    if not (TraceScan.scan_noack false all_events) then begin
      let rec first acc = function
        | [] -> "?"
        | (q, e) :: rest -> let acc' = acc @ [e] in if TraceScan.scan_noack false acc' then first acc' rest else q in
      report "no_ack_on_error" (first [] evs) "acknowledgement_after_callback_error (trace scan)" end;
    if quiescent_end then begin
      match TraceScan.unresolved [] all_events with
      | [] -> ()
      | l -> report "future_total" "end" ("future_unresolved_after_close calls=" ^
               S.concat "," (L.map string_of_n l) ^ " (trace scan)") end;
    let (r, deepest, dstate, exhausted) = run_scenario items in
    match r with
    | None ->
      incr diffs;
      let (seq, text) = if deepest < Array.length items && deepest >= 0 then
          (match items.(deepest) with Ev (q, t, _) -> (q, t) | Mark (q, t) -> (q, "mark " ^ t)) else ("?", "?") in
      Printf.printf "diff %s seq=%s %s not enabled in the model (%s)%s\n" k seq text (state_summary dstate)
        (if exhausted then " search budget exhausted" else "");
      (* the monitor stopped at a watcher's report "future c completed": if in the model state reached so far
         that future is still pending and no acknowledgement carrying its id has arrived since it was stored
         (Client.fut_truthful on the completed future is false), the observed prefix itself breaks truthfulness *)
      (if deepest < Array.length items && deepest >= 0 then
         match items.(deepest) with
         | Ev (q, _, C.EFut (c, true, _, _, _)) ->
           (match L.assoc_opt c dstate.C.t.C.t_futs with
            | Some f when f.C.cf_fut.Future.f_status <> Future.Completed ->
              let f' = { f with C.cf_fut = { f.C.cf_fut with Future.f_status = Future.Completed } } in
              if not (C.fut_truthful dstate f') then
                report "future_truthful" q ("future_completed_without_acknowledgement call=" ^ string_of_n c ^
                                            " id=" ^ string_of_n f.C.cf_id ^ " (model state at the rejected event)")
            | _ -> ())
         | _ -> ())
    | Some steps ->
      L.iter (fun (seq, eo, s0, s) ->
        (match eo with
         | Some e ->
           let label = S.concat "/" [event_kind e; ppc_name s0.C.k.C.k_ppc; apc_name s0.C.k.C.k_api; dpc_name s0.C.k.C.k_dpc] in
           Hashtbl.replace classes label ()
         | None -> ());
        if not (C.store_before_send_ok s) then report "store_before_send" seq "publish_sent_before_saved";
        if not (C.truthful_ok s) then report "future_truthful" seq "future_completed_without_acknowledgement";
        (match C.owed_unanswered s with
         | Some (Packet.Pubcomp id) ->
           report "pubrel_answered" seq ("pubrel_unknown_id_unanswered id=" ^ string_of_n id)
         | Some (Packet.Pubrec id) -> report "pubrec_always" seq ("publish_qos2_unanswered id=" ^ string_of_n id)
         | Some (Packet.Puback id) -> report "qos01" seq ("publish_qos1_unanswered id=" ^ string_of_n id)
         | Some _ -> report "qos01" seq "unanswered"
         | None -> ());
        (match C.delivered_twice s with
         | Some id ->
           (* a failing DeletePacket(Incoming) is outside C10's quantifier (the session store is assumed
              to work; it is injected for conformance only): the message cannot but stay stored *)
           (match twice_tag id seq with
            | Some tag -> report "exactly_once" seq (tag ^ " id=" ^ string_of_n id)
            | None -> ())
         | None -> ());
        (match eo with
         | None ->
           (* settle / end marker: nothing hidden is enabled here *)
           if S.length seq > 0 && seq.[S.length seq - 1] = '!' && not (C.quiescent s) then
             report "future_total" seq ("not_quiescent " ^ state_summary s)
           else if C.ended s && not s.C.t.C.t_protected && C.pending_futures s <> [] then
             report "future_total" seq ("future_pending_after_end calls=" ^
               S.concat "," (L.map string_of_n (C.pending_futures s)))
         | Some (C.ENew _) ->
           if C.pending_futures s0 <> [] && not s0.C.t.C.t_protected then
             report "future_total" seq ("future_pending_after_close calls=" ^
               S.concat "," (L.map string_of_n (C.pending_futures s0)))
         | _ -> ())) steps) (L.rev !order);
  ignore clause_prefix;
  Printf.printf "done cases=%d diffs=%d distinct=%d\n" !cases !diffs (Hashtbl.length classes)

(* ---- client.Tracker against Tracker.v *)
let rec z_of_int (n : int) : BinNums.coq_Z =
  if n = 0 then BinNums.Z0 else if n > 0 then BinNums.Zpos (pos_of_int n) else BinNums.Zneg (pos_of_int (- n))
let int_of_z = function BinNums.Z0 -> 0 | BinNums.Zpos p -> int_of_pos p | BinNums.Zneg p -> - (int_of_pos p)

let run_tracker path =
  let n = ref 0 and bad = ref 0 in
  L.iter (fun line -> match words line with
    | ["trk"; k; ops; outs] ->
      incr n;
      let t = ref (Tracker.tk_new (z_of_int 3600) (z_of_int 0)) in
      let buf = Buffer.create 64 in
      S.iter (fun o ->
        (match o with
         | 'p' -> t := Tracker.tk_ping !t
         | 'o' -> t := Tracker.tk_pong !t
         | _ -> t := Tracker.tk_reset !t (z_of_int 1));
        Buffer.add_char buf (if Tracker.tk_pending !t then '1' else '0')) ops;
      if Buffer.contents buf <> outs then begin incr bad;
        Printf.printf "diff %s tracker Pending after %s: model=%s impl=%s\n" k
          (if S.length ops > 40 then S.sub ops 0 40 ^ "..." else ops) (Buffer.contents buf) outs end
    | ["trkw"; k; timeout; t0; t1; t2; t3; w] ->
      incr n;
      let z s = z_of_int (int_of_string s) in
      (* last in [t0,t1], now in [t2,t3]; Window is antitone in now, monotone in last *)
      let lo = int_of_z (Tracker.tk_window (Tracker.tk_reset (Tracker.tk_new (z timeout) (z "0")) (z t0)) (z t3))
      and hi = int_of_z (Tracker.tk_window (Tracker.tk_reset (Tracker.tk_new (z timeout) (z "0")) (z t1)) (z t2)) in
      let w = int_of_string w in
      if w < lo || w > hi then begin incr bad;
        Printf.printf "diff %s tracker Window=%d outside the model's interval [%d,%d]\n" k w lo hi end
    | _ -> ()) (read_lines path);
  Printf.printf "done cases=%d diffs=%d distinct=%d\n" !n !bad !n

let () = register "c09" (run "C09"); register "c10" (run "C10"); register "c15" (run "C15"); register "tracker" run_tracker
