(* conv.ml — hand-written glue between the exchange files and the extracted
   model types (trusted): int <-> N, char <-> byte, hex, packet text format. *)
open BinNums
module L = Stdlib.List
module S = Stdlib.String

let rec pos_of_int (n : int) : positive =
  if n = 1 then Coq_xH
  else if n land 1 = 0 then Coq_xO (pos_of_int (n lsr 1))
  else Coq_xI (pos_of_int (n lsr 1))
let n_of_int (n : int) : coq_N = if n = 0 then N0 else Npos (pos_of_int n)
let rec int_of_pos = function
  | Coq_xH -> 1
  | Coq_xO p -> 2 * int_of_pos p
  | Coq_xI p -> 2 * int_of_pos p + 1
let int_of_n = function N0 -> 0 | Npos p -> int_of_pos p
(* decimal string <-> N without going through a bounded int (values up to 2^64+) *)
let n_of_string (s : string) : coq_N =
  let z = Z.of_string s in
  let rec go z = if Z.equal z Z.one then Coq_xH
    else if Z.is_even z then Coq_xO (go (Z.shift_right z 1)) else Coq_xI (go (Z.shift_right z 1)) in
  if Z.equal z Z.zero then N0 else Npos (go z)
let string_of_n (n : coq_N) : string =
  let rec go = function
    | Coq_xH -> Z.one
    | Coq_xO p -> Z.shift_left (go p) 1
    | Coq_xI p -> Z.succ (Z.shift_left (go p) 1) in
  match n with N0 -> "0" | Npos p -> Z.to_string (go p)

let rec nat_of_int n = if n <= 0 then Datatypes.O else Datatypes.S (nat_of_int (n - 1))
let rec int_of_nat = function Datatypes.O -> 0 | Datatypes.S n -> 1 + int_of_nat n

let byte_tbl : Byte.byte array =
  Array.init 256 (fun i -> match Byte0.of_N (n_of_int i) with Some b -> b | None -> assert false)
let byte_of_int i = byte_tbl.(i land 255)
let int_of_byte (b : Byte.byte) = int_of_n (Byte0.to_N b)

let hexd = "0123456789abcdef"
let hex_of_bytes (bs : Byte.byte list) : string =
  if bs = [] then "-" else begin
    let b = Buffer.create 64 in
    L.iter (fun x -> let i = int_of_byte x in
      Buffer.add_char b hexd.[i lsr 4]; Buffer.add_char b hexd.[i land 15]) bs;
    Buffer.contents b end
let hv c = match c with
  | '0'..'9' -> Char.code c - 48 | 'a'..'f' -> Char.code c - 87 | 'A'..'F' -> Char.code c - 55
  | _ -> failwith "bad hex"
let bytes_of_hex (s : string) : Byte.byte list =
  if s = "-" || s = "" then [] else begin
    let n = S.length s / 2 in
    let rec go i acc = if i < 0 then acc
      else go (i - 1) (byte_of_int (hv s.[2*i] * 16 + hv s.[2*i+1]) :: acc) in
    go (n - 1) [] end

let bool_of_s s = (s = "1")
let s_of_bool b = if b then "1" else "0"

let split c s = S.split_on_char c s

(* packet text format (one token, no spaces):
   connect:cid:ka:user:pass:clean:will|-:version   will = topic,payload,qos,retain
   connack:sp:rc   publish:dup:topic:payload:qos:retain:id
   puback:id pubrec:id pubrel:id pubcomp:id unsuback:id
   subscribe:id:t,q;t,q   suback:id:c,c   unsubscribe:id:t,t
   pingreq pingresp disconnect        ("nil" = no packet) *)
open Packet
let msg_of_s s = match split ',' s with
  | [t; p; q; r] -> { m_topic = bytes_of_hex t; m_payload = bytes_of_hex p; m_qos = n_of_string q; m_retain = bool_of_s r }
  | _ -> failwith ("bad message " ^ s)
let s_of_msg m = S.concat "," [hex_of_bytes m.m_topic; hex_of_bytes m.m_payload; string_of_n m.m_qos; s_of_bool m.m_retain]

let packet_of_s (s : string) : packet =
  match split ':' s with
  | ["connect"; cid; ka; u; p; cl; w; v] ->
    Connect { c_client_id = bytes_of_hex cid; c_keep_alive = n_of_string ka; c_username = bytes_of_hex u;
              c_password = bytes_of_hex p; c_clean = bool_of_s cl;
              c_will = (if w = "-" then None else Some (msg_of_s w)); c_version = n_of_string v }
  | ["connack"; sp; rc] -> Connack (bool_of_s sp, n_of_string rc)
  | ["publish"; d; t; p; q; r; id] ->
    Publish (bool_of_s d, { m_topic = bytes_of_hex t; m_payload = bytes_of_hex p; m_qos = n_of_string q; m_retain = bool_of_s r }, n_of_string id)
  | ["puback"; id] -> Puback (n_of_string id)
  | ["pubrec"; id] -> Pubrec (n_of_string id)
  | ["pubrel"; id] -> Pubrel (n_of_string id)
  | ["pubcomp"; id] -> Pubcomp (n_of_string id)
  | ["unsuback"; id] -> Unsuback (n_of_string id)
  | ["subscribe"; id; subs] ->
    Subscribe (n_of_string id, if subs = "" then [] else
      L.map (fun x -> match split ',' x with [t; q] -> (bytes_of_hex t, n_of_string q) | _ -> failwith "bad sub") (split ';' subs))
  | ["suback"; id; cs] -> Suback (n_of_string id, if cs = "" then [] else L.map n_of_string (split ',' cs))
  | ["unsubscribe"; id; ts] -> Unsubscribe (n_of_string id, if ts = "" then [] else L.map bytes_of_hex (split ',' ts))
  | ["pingreq"] -> Pingreq | ["pingresp"] -> Pingresp | ["disconnect"] -> Disconnect
  | _ -> failwith ("bad packet " ^ s)

let s_of_packet (p : packet) : string =
  let c = S.concat ":" in
  match p with
  | Connect k -> c ["connect"; hex_of_bytes k.c_client_id; string_of_n k.c_keep_alive; hex_of_bytes k.c_username;
                    hex_of_bytes k.c_password; s_of_bool k.c_clean;
                    (match k.c_will with None -> "-" | Some m -> s_of_msg m); string_of_n k.c_version]
  | Connack (sp, rc) -> c ["connack"; s_of_bool sp; string_of_n rc]
  | Publish (d, m, id) -> c ["publish"; s_of_bool d; hex_of_bytes m.m_topic; hex_of_bytes m.m_payload;
                             string_of_n m.m_qos; s_of_bool m.m_retain; string_of_n id]
  | Puback id -> c ["puback"; string_of_n id] | Pubrec id -> c ["pubrec"; string_of_n id]
  | Pubrel id -> c ["pubrel"; string_of_n id] | Pubcomp id -> c ["pubcomp"; string_of_n id]
  | Unsuback id -> c ["unsuback"; string_of_n id]
  | Subscribe (id, subs) -> c ["subscribe"; string_of_n id;
      S.concat ";" (L.map (fun (t, q) -> hex_of_bytes t ^ "," ^ string_of_n q) subs)]
  | Suback (id, cs) -> c ["suback"; string_of_n id; S.concat "," (L.map string_of_n cs)]
  | Unsubscribe (id, ts) -> c ["unsubscribe"; string_of_n id; S.concat "," (L.map hex_of_bytes ts)]
  | Pingreq -> "pingreq" | Pingresp -> "pingresp" | Disconnect -> "disconnect"

let opt_packet_of_s s = if s = "nil" then None else Some (packet_of_s s)
let s_of_opt_packet = function None -> "nil" | Some p -> s_of_packet p

(* reading the exchange file *)
let read_lines (path : string) : string list =
  let ic = open_in path in
  let rec go acc = match input_line ic with
    | l -> go (l :: acc)
    | exception End_of_file -> close_in ic; L.rev acc in
  go []
let words s = L.filter (fun w -> w <> "") (split ' ' s)

(* registry of sub-commands *)
let commands : (string * (string -> unit)) list ref = ref []
let register name f = commands := (name, f) :: !commands
