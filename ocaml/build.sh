#!/bin/sh
# builds ocaml/modelrun from the extracted model (gen/) and the drivers; offline.
set -e
cd "$(dirname "$0")"
rm -rf _build && mkdir -p _build
cp gen/*.ml gen/*.mli conv.ml drv_*.ml modelrun.ml _build/
cd _build
# drivers register themselves; modelrun must come last and depend on all drivers
DRV=$(ls drv_*.ml | sed 's/\.ml$//' )
for d in $DRV; do m=$(echo "$d" | sed 's/^./\U&/'); echo "let _ = $m.run" >> link_all.ml; done
ORDER=$(ocamlfind ocamldep -sort $(ls *.ml *.mli | grep -v '^modelrun.ml$'))
ocamlfind ocamlopt -package zarith -linkpkg -O2 -w -a -o ../modelrun $ORDER modelrun.ml 2>&1 || \
ocamlfind ocamlopt -package zarith -linkpkg -w -a -o ../modelrun $ORDER modelrun.ml
cd .. && rm -rf _build
