#!/bin/sh
# ocaml/build.sh <component> — extracts coq/Extract/Extract_<component>.v into gen_<component>/
# (coqc is run inside that directory: 8.16 has no output-directory option) and links
# conv.ml + drv_<component>*.ml + modelrun.ml into ocaml/modelrun_<component>.  Offline.
set -e
cd "$(dirname "$0")"
C="$1"
[ -n "$C" ] || { echo "usage: build.sh <component>" >&2; exit 2; }
rm -rf "gen_$C" "_build_$C" && mkdir -p "gen_$C" "_build_$C"
( cd "gen_$C" && timeout 1800 coqc -Q ../../coq GM "../../coq/Extract/Extract_$C.v" > /dev/null )
cp "gen_$C"/*.ml "gen_$C"/*.mli conv.ml drv_"$C"*.ml modelrun.ml "_build_$C"/
cd "_build_$C"
ORDER=$(ocamlfind ocamldep -sort $(ls *.ml *.mli | grep -v '^modelrun.ml$'))
ocamlfind ocamlopt -package zarith -linkpkg -O3 -unboxed-types 2>/dev/null -w -a -o "../modelrun_$C" $ORDER modelrun.ml || \
ocamlfind ocamlopt -package zarith -linkpkg -w -a -o "../modelrun_$C" $ORDER modelrun.ml
cd .. && rm -rf "_build_$C"
