(* modelrun.ml — entry point: modelrun <command> <file> *)
let () =
  if Array.length Sys.argv < 3 then (prerr_endline "usage: modelrun <command> <file>"; exit 2);
  match Stdlib.List.assoc_opt Sys.argv.(1) !Conv.commands with
  | Some f -> f Sys.argv.(2)
  | None -> prerr_endline ("unknown command " ^ Sys.argv.(1)); exit 2
