(* drv_backend_box.ml — black-box scenarios (go/cmd/backend/box.go): the packets' operations
   are replayed on the model; at every drain the model's two queues of that session are
   emptied with ODequeue and compared with what the peer received. *)
open Conv
open BinNums
open Packet
open Backend
module L = Stdlib.List
module S = Stdlib.String
module D = Drv_backend

let msg_key m = s_of_msg m
let sorted_msgs ms = L.sort compare (L.map msg_key ms)
(* markers of OTHER peers reach a peer subscribed to '#' after its own drain and are dequeued (and capped) by the
   broker before the next operation, which may change that peer's subscriptions: their QoS is not compared *)
let is_marker m = match m.m_topic with a :: b :: _ -> int_of_byte a = 0x6d && int_of_byte b = 0x2f | _ -> false
let strip_qos m = S.concat "," [hex_of_bytes m.m_topic; hex_of_bytes m.m_payload; s_of_bool m.m_retain]

let run path =
  let scen = ref 0 and fails = ref 0 and diffs = ref 0 and cases = ref 0 in
  let st = ref (init (n_of_int 100)) in
  let inc : (int, int) Hashtbl.t = Hashtbl.create 16 in
  let conn c = n_of_int (c * 1000 + (try Hashtbl.find inc c with Not_found -> 0)) in
  let last_setup = ref None in
  let wills : (int, message) Hashtbl.t = Hashtbl.create 16 in
  let bad_scen = ref false in
  let fail kind k fmt = Printf.ksprintf (fun s -> if not !bad_scen then incr fails; bad_scen := true;
                                          Printf.printf "propfail %s %s %s\n" k kind s) fmt in
  let apply k o expect =
    let (r, st') = step !st o in
    st := st';
    if D.s_of_result r <> expect && expect <> "*" then begin
      incr diffs; Printf.printf "diff %s model result %s expected %s\n" k (D.s_of_result r) expect end;
    r in
  let rec drain_model c temp acc =
    match step !st (ODequeue (c, temp)) with
    | (RMsg m, st') -> st := st'; drain_model c temp (m :: acc)
    | _ -> L.rev acc in
  L.iter (fun line -> match words line with
      | ["boxstart"; k] -> incr scen; st := init (n_of_int 100); Hashtbl.reset inc; Hashtbl.reset wills; bad_scen := false
      | ["box"; k; "will"; c; m] -> Hashtbl.replace wills (int_of_string c) (msg_of_s m)
      | ["boxfail"; k; _] | "boxfail" :: k :: _ ->
        incr diffs; Printf.printf "diff %s scenario did not complete: %s\n" k line
      | ["box"; k; "setup"; c; id; clean] ->
        incr cases;
        let c = int_of_string c in
        Hashtbl.replace inc c ((try Hashtbl.find inc c with Not_found -> 0) + 1);
        let r = apply k (OSetup (conn c, bytes_of_hex id, clean = "1")) "*" in
        (match r with
         | RSetupWait old ->
           (* takeover: the broker closes the old connection, which publishes its will and terminates,
              then the newcomer's Setup continues *)
           let oldpeer = int_of_n old / 1000 in
           (match Hashtbl.find_opt wills oldpeer with
            | Some wm -> ignore (apply k (OPublish (old, wm, [])) "ok"); Hashtbl.remove wills oldpeer
            | None -> ());
           ignore (apply k (OTerminate old) "ok"); ignore (apply k (OMarkClosed old) "ok");
           last_setup := Some (apply k (OSetupEnd false) "*")
         | _ -> last_setup := Some r)
      | ["boximpl"; k; res] ->
        (match !last_setup with
         | Some (RSetup resumed) ->
           if res <> "connack:" ^ s_of_bool resumed then fail "delivery" k "session present: model %b, CONNACK %s" resumed res
         | Some r -> incr diffs; Printf.printf "diff %s model Setup result %s\n" k (D.s_of_result r)
         | None -> ());
        last_setup := None
      | ["box"; k; "sub"; c; subs] ->
        incr cases;
        let c = conn (int_of_string c) and subs = D.subs_of_s subs in
        ignore (apply k (OSubscribe (c, subs, L.map (fun (f, _) -> search_retained !st f) subs)) "ok")
      | ["box"; k; "unsub"; c; fs] ->
        incr cases;
        ignore (apply k (OUnsubscribe (conn (int_of_string c), L.map bytes_of_hex (split ';' fs))) "ok")
      | ["box"; k; "pub"; c; m] ->
        incr cases;
        ignore (apply k (OPublish (conn (int_of_string c), msg_of_s m, [])) "ok")
      | ["box"; k; "disc"; c] ->
        incr cases;
        Hashtbl.remove wills (int_of_string c);
        let c = conn (int_of_string c) in
        ignore (apply k (OTerminate c) "ok"); ignore (apply k (OMarkClosed c) "ok")
      | ["boxrecv"; k; c; tq; sq] ->
        incr cases;
        let c = conn (int_of_string c) in
        (* what is queued (QoS as published) and the subscriptions the broker caps with when it dequeues *)
        let (orig, subs) = (match session_of !st c with
            | Some (_, s) -> (s.s_tq @ s.s_sq, s.s_subs) | None -> ([], [])) in
        let mt = drain_model c true [] in
        let ms = drain_model c false [] in
        let it = D.msgs_of_s tq and is = D.msgs_of_s sq in
        let live l = L.filter (fun m -> not m.m_retain) l in
        (* the property's own judgement of a delivered QoS: min(published, granted) for ONE of the matching filters
           (the published QoS if none matches) *)
        let qos_allowed (m : message) =
          match L.find_opt (fun o -> strip_qos o = strip_qos m) orig with
          | None -> true
          | Some o ->
            let grants = L.filter_map (fun (f, q) -> if MatchSpec.topic_matches f o.m_topic then Some q else None) subs in
            let mn a b = if int_of_n a <= int_of_n b then a else b in
            if grants = [] then m.m_qos = o.m_qos else L.exists (fun q -> m.m_qos = mn o.m_qos q) grants in
        (* stored queue and the live part of the temporary queue: same messages in the same order *)
        if L.map strip_qos ms <> L.map strip_qos is || L.map strip_qos (live mt) <> L.map strip_qos (live it) then
          fail "delivery" k "peer %s: model t=%s s=%s  received t=%s s=%s" (D.s_of_n c) (D.s_of_msgs mt) (D.s_of_msgs ms) tq sq
        else if L.sort compare (L.map strip_qos mt) <> L.sort compare (L.map strip_qos it) then
          fail "retained" k "peer %s: model t=%s  received t=%s" (D.s_of_n c) (D.s_of_msgs mt) tq
        else begin
          let nomark l = L.filter (fun m -> not (is_marker m)) l in
          if not (L.for_all qos_allowed (nomark (it @ is))) then
            fail "qos" k "peer %s: model t=%s s=%s  received t=%s s=%s" (D.s_of_n c) (D.s_of_msgs mt) (D.s_of_msgs ms) tq sq
          else if L.map msg_key (nomark ms) <> L.map msg_key (nomark is) || sorted_msgs (nomark mt) <> sorted_msgs (nomark it) then begin
            (* allowed by the property, but not what the model (MatchFirst as coded) predicts: the tie is broken *)
            incr diffs;
            Printf.printf "diff %s delivered QoS differs from the model's (allowed by the property) peer %s: model t=%s s=%s received t=%s s=%s\n"
              k (D.s_of_n c) (D.s_of_msgs mt) (D.s_of_msgs ms) tq sq end
        end
      | _ -> ()) (read_lines path);
  Printf.printf "done cases=%d diffs=%d propfails=%d distinct=%d\n" !cases !diffs !fails !scen

let () = register "mbbox" run
