(* drv_stream.ml — runs the stream / transport models (Stream.v, EncStream.v,
   BaseConn.v) on the exchange files written by go/cmd/stream.

   c03 lines
     oracle <framehex> <pkttext|err>
     case <n> dec lim=<L> end=<eof|err> stream=<hex> cuts=<sizes>
     impl <n> pkts=<text,..|-> err=<kind> pulled=<N>
     case <n> enc delay=<0|1> ops=<op;op;…>       W<hex|!>/<a|s>  F  T  X(carrier fails from now on)  D<0|1>
     impl <n> res=<r,r,…> writes=<hex,hex|->
     case <n> cn  delay=<0|1> lim=<L> in=<hex> cuts=<sizes> inend=<eof|err> ops=<op;…>
     impl <n> res=<…> writes=<…>                                                      *)
open Conv
module L = Stdlib.List
module S = Stdlib.String

let kv (fields : string list) (key : string) : string =
  let p = key ^ "=" in
  let pl = S.length p in
  match L.find_opt (fun f -> S.length f >= pl && S.sub f 0 pl = p) fields with
  | Some f -> S.sub f pl (S.length f - pl)
  | None -> ""

let parse_sizes (s : string) : int list =
  if s = "-" || s = "" then [] else
  L.concat_map (fun p ->
    match S.index_opt p 'x' with
    | Some i -> let n = int_of_string (S.sub p 0 i) and v = int_of_string (S.sub p (i+1) (S.length p - i - 1)) in
      L.init n (fun _ -> v)
    | None -> [int_of_string p]) (split ',' s)

(* cut a byte list into chunks of the given sizes *)
let cut (bs : Byte.byte list) (sizes : int list) : Byte.byte list list =
  let rec take n l acc = if n = 0 then (L.rev acc, l) else
      match l with x :: r -> take (n-1) r (x :: acc) | [] -> failwith "sizes exceed stream" in
  let rec go l = function
    | [] -> if l <> [] then failwith "sizes do not cover stream" else []
    | s :: ss -> let (c, r) = take s l [] in c :: go r ss in
  go bs sizes

let s_of_derr (e : Stream.derr) : string = match e with
  | Stream.EEof -> "eof" | Stream.EUnexpectedEof -> "ueof" | Stream.EDetectionOverflow -> "overflow"
  | Stream.EReadLimit -> "limit" | Stream.EInvalidType -> "type" | Stream.EDecode -> "decode"
  | Stream.ESource c -> (match int_of_n c with 1 -> "src" | 2 -> "closed" | 3 -> "deadline" | 4 -> "carrier" | _ -> "src?")
  | Stream.EOutOfFuel -> "OUT-OF-FUEL"

(* frame bytes -> what Type.New()+Decode made of them, as reported by the harness *)
let oracle : (string, Packet.packet option) Hashtbl.t = Hashtbl.create 4096
let missing_oracle = ref 0
let decode_oracle (_t : BinNums.coq_N) (frame : Byte.byte list) : Packet.packet option =
  match Hashtbl.find_opt oracle (hex_of_bytes frame) with
  | Some r -> r
  | None -> incr missing_oracle; None

let canon_pkts (s : string) : string =
  if s = "-" || s = "" then "-" else S.concat "/" (L.map (fun t -> s_of_packet (packet_of_s t)) (split '/' s))

let run_c03 path =
  let n = ref 0 and bad = ref 0 in
  let seen = Hashtbl.create 4096 in
  let distinct = ref 0 in
  let cases : (string, string list) Hashtbl.t = Hashtbl.create 4096 in
  let note_class key = if not (Hashtbl.mem seen key) then (Hashtbl.replace seen key (); incr distinct) in
  L.iter (fun line -> match words line with
    | ["oracle"; fr; txt] ->
      Hashtbl.replace oracle fr (if txt = "err" then None else Some (packet_of_s txt))
    | "case" :: k :: rest -> Hashtbl.replace cases k rest
    | "impl" :: k :: obs ->
      (match Hashtbl.find_opt cases k with
       | None -> ()
       | Some ("dec" :: f) ->
         incr n;
         let stream = bytes_of_hex (kv f "stream") in
         let sizes = parse_sizes (kv f "cuts") in
         let lim = n_of_string (kv f "lim") in
         let e = if kv f "end" = "err" then Stream.SErr (n_of_int 1) else Stream.SEof in
         let chunks = cut stream sizes in
         missing_oracle := 0;
         let a = Stream.dec_all Stream.detect_impl decode_oracle lim chunks e in
         let m_pk = match a.Stream.a_frames with [] -> "-" | fs -> S.concat "/" (L.map (fun (_, p) -> s_of_packet p) fs) in
         let m_err = s_of_derr a.Stream.a_err in
         let total = n_of_int (L.length stream) in
         let m_pulled = int_of_n (Stream.pulled total a.Stream.a_state) in
         let i_pk = canon_pkts (kv obs "pkts") and i_err = kv obs "err" and i_pulled = int_of_string (kv obs "pulled") in
         let maxc = L.fold_left max 0 sizes in
         let consumed = L.fold_left (fun s (fr, _) -> s + L.length fr) 0 a.Stream.a_frames in
         let pulled_ok = if maxc <= 4091 then i_pulled = m_pulled else i_pulled <= m_pulled && i_pulled >= consumed in
         if m_pk <> i_pk || m_err <> i_err || not pulled_ok || !missing_oracle > 0 then begin
           incr bad;
           Printf.printf "diff %s dec model: pkts=%s err=%s pulled=%d%s | impl: pkts=%s err=%s pulled=%d\n" k
             m_pk m_err m_pulled (if !missing_oracle > 0 then " (frame without oracle entry)" else "") i_pk i_err i_pulled
         end;
         (* one-chunk run must agree with the chunked run (C03_chunking_irrelevant, evaluated) *)
         let a1 = Stream.dec_all Stream.detect_impl decode_oracle lim [stream] e in
         if Stream.dec_out a1 <> Stream.dec_out a then begin
           incr bad; Printf.printf "diff %s dec model is not chunking-invariant on this input\n" k end;
         let cls = Printf.sprintf "dec %s lim%s n%d c%s t%s" m_err (if kv f "lim" = "0" then "0" else "+")
             (min 6 (L.length a.Stream.a_frames))
             (if maxc <= 1 then "1" else if maxc <= 5 then "5" else if maxc <= 4091 then "m" else "L")
             (match stream with b :: _ -> string_of_int (int_of_byte b / 16) | [] -> "-") in
         note_class cls
       | Some _ -> ())
    | _ -> ()) (read_lines path);
  Printf.printf "done cases=%d diffs=%d distinct=%d\n" !n !bad !distinct

let () = register "c03" run_c03
