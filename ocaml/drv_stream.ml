(* drv_stream.ml — runs the stream / transport models (Stream.v, EncStream.v,
   BaseConn.v) on the exchange files written by go/cmd/stream.

   c03 lines
     oracle <framehex> <pkttext|err>
     case <n> dec lim=<L> end=<eof|err> stream=<hex> cuts=<sizes>
     impl <n> pkts=<text,..|-> err=<kind> pulled=<N>
     case <n> enc delay=<0|1> ops=<op;op;…>       W<hex|!>/<a|s>  F  T  X(carrier fails from now on)  D<0|1>
     impl <n> res=<r,r,…> writes=<hex,hex|->
     case <n> cn  delay=<0|1> lim=<L> in=<hex> cuts=<sizes> inend=<eof|err> ops=<op;…>
     impl <n> res=<…> writes=<…>                                                      *)
open Conv
module L = Stdlib.List
module S = Stdlib.String

let kv (fields : string list) (key : string) : string =
  let p = key ^ "=" in
  let pl = S.length p in
  match L.find_opt (fun f -> S.length f >= pl && S.sub f 0 pl = p) fields with
  | Some f -> S.sub f pl (S.length f - pl)
  | None -> ""

let parse_sizes (s : string) : int list =
  if s = "-" || s = "" then [] else
  L.concat_map (fun p ->
    match S.index_opt p 'x' with
    | Some i -> let n = int_of_string (S.sub p 0 i) and v = int_of_string (S.sub p (i+1) (S.length p - i - 1)) in
      L.init n (fun _ -> v)
    | None -> [int_of_string p]) (split ',' s)

(* cut a byte list into chunks of the given sizes *)
let cut (bs : Byte.byte list) (sizes : int list) : Byte.byte list list =
  let rec take n l acc = if n = 0 then (L.rev acc, l) else
      match l with x :: r -> take (n-1) r (x :: acc) | [] -> failwith "sizes exceed stream" in
  let rec go l = function
    | [] -> if l <> [] then failwith "sizes do not cover stream" else []
    | s :: ss -> let (c, r) = take s l [] in c :: go r ss in
  go bs sizes

let s_of_derr (e : Stream.derr) : string = match e with
  | Stream.EEof -> "eof" | Stream.EUnexpectedEof -> "ueof" | Stream.EDetectionOverflow -> "overflow"
  | Stream.EReadLimit -> "limit" | Stream.EInvalidType -> "type" | Stream.EDecode -> "decode"
  | Stream.ESource c -> (match int_of_n c with 1 -> "src" | 2 -> "closed" | 3 -> "deadline" | 4 -> "carrier" | 5 -> "notbinary" | _ -> "src?")
  | Stream.EOutOfFuel -> "OUT-OF-FUEL"

(* frame bytes -> what Type.New()+Decode made of them, as reported by the harness *)
let oracle : (string, Packet.packet option) Hashtbl.t = Hashtbl.create 4096
let missing_oracle = ref 0
let decode_oracle (_t : BinNums.coq_N) (frame : Byte.byte list) : Packet.packet option =
  match Hashtbl.find_opt oracle (hex_of_bytes frame) with
  | Some r -> r
  | None -> incr missing_oracle; None

let canon_pkts (s : string) : string =
  if s = "-" || s = "" then "-" else S.concat "/" (L.map (fun t -> s_of_packet (packet_of_s t)) (split '/' s))


(* ---------------------------------------------------------------- scripts (encoder, BaseConn) *)
let s_of_code (c : BinNums.coq_N) : string =
  match int_of_n c with 1 -> "src" | 2 -> "closed" | 3 -> "deadline" | 4 -> "carrier" | _ -> "code?"

let bytes_opt (s : string) : Byte.byte list option = if s = "!" then None else Some (bytes_of_hex s)

(* "W<hex|!>/<a|s>" -> (bytes option, async) *)
let payload_async (t : string) (from : int) =
  let i = S.rindex t '/' in
  (bytes_opt (S.sub t from (i - from)), S.sub t (i + 1) (S.length t - i - 1) = "a")

let opt_n (s : string) : BinNums.coq_N option = if s = "-1" || s = "" then None else Some (n_of_string s)

let s_of_eres (r : EncStream.eres) : string = match r with
  | EncStream.EROk -> "ok" | EncStream.ERErr c -> "e:" ^ s_of_code c | EncStream.EREnc -> "e:decode" | EncStream.ERNone -> "-"

let s_of_cres (r : BaseConn.cres) : string = match r with
  | BaseConn.CROk -> "ok" | BaseConn.CRErr c -> "e:" ^ s_of_code c | BaseConn.CREnc -> "e:decode"
  | BaseConn.CRPacket (_, p) -> "p:" ^ s_of_packet p
  | BaseConn.CRRecvErr e -> "e:" ^ s_of_derr e | BaseConn.CRNone -> "-"

let canon_res (r : string) : string =
  if S.length r > 2 && S.sub r 0 2 = "p:" then "p:" ^ s_of_packet (packet_of_s (S.sub r 2 (S.length r - 2))) else r

let timer_visible (e : EncStream.estate) : bool =
  e.EncStream.e_armed && e.EncStream.e_buf <> [] && e.EncStream.e_berr = None

let run_enc (f : string list) : string list * string =
  let ops = if kv f "ops" = "-" then [] else split ';' (kv f "ops") in
  let st = ref (EncStream.einit (kv f "delay" = "0") (opt_n (kv f "wleft"))) in
  let res = L.map (fun t ->
    match t.[0] with
    | 'T' ->
      let vis = timer_visible !st in
      if (!st).EncStream.e_armed then st := fst (EncStream.enc_step !st EncStream.EvTimer);
      if vis then "t" else "-"
    | _ ->
      let ev = match t.[0] with
        | 'W' -> let (b, a) = payload_async t 1 in EncStream.EvWrite (b, a)
        | 'F' -> EncStream.EvFlush
        | 'X' -> EncStream.EvFail (n_of_int 4)
        | 'D' -> EncStream.EvDelay (t = "D1")
        | _ -> failwith ("bad enc op " ^ t) in
      let (s', r) = EncStream.enc_step !st ev in
      st := s'; s_of_eres r) ops in
  (res, match L.rev (!st).EncStream.e_wire with [] -> "-" | ws -> S.concat "," (L.map hex_of_bytes ws))

let run_cn (f : string list) : string list * string * BaseConn.cstate =
  let ops = if kv f "ops" = "-" then [] else split ';' (kv f "ops") in
  let stream = bytes_of_hex (kv f "in") in
  let chunks = cut stream (parse_sizes (kv f "cuts")) in
  let e = match kv f "inend" with "eof" -> Stream.SEof | "src" -> Stream.SErr (n_of_int 1) | _ -> Stream.SErr (n_of_int 4) in
  let st = ref (BaseConn.cinit (kv f "delay" = "0") (opt_n (kv f "wleft")) chunks e (n_of_string (kv f "lim"))
                  (opt_n (kv f "dlleft")) (kv f "dlc" = "1") (kv f "clfail" = "1")) in
  let step ev = let (s', r) = BaseConn.cn_step Stream.detect_impl decode_oracle !st ev in st := s'; s_of_cres r in
  let res = L.map (fun t ->
    match t.[0] with
    | 'T' ->
      let vis = timer_visible (!st).BaseConn.c_enc in
      if (!st).BaseConn.c_enc.EncStream.e_armed then ignore (step BaseConn.CTimer);
      if vis then "t" else "-"
    | 'S' ->
      let d = S.index t '.' in
      let who = n_of_string (S.sub t 1 (d - 1)) in
      let (b, a) = payload_async t (d + 1) in
      step (BaseConn.CSend (who, b, a))
    | 'R' -> step BaseConn.CReceive
    | 'C' -> step BaseConn.CClose
    | 'X' -> step BaseConn.CFailWrites
    | 'Q' -> step BaseConn.CSetTimeout
    | 'D' -> step (BaseConn.CDelay (t = "D1"))
    | _ -> failwith ("bad cn op " ^ t)) ops in
  (res, (match L.rev (!st).BaseConn.c_enc.EncStream.e_wire with [] -> "-" | ws -> S.concat "," (L.map hex_of_bytes ws)), !st)

let op_class (ops : string) : string =
  if ops = "-" then "" else S.concat "" (L.map (fun t -> S.make 1 t.[0] ^
     (if t.[0] = 'W' || t.[0] = 'S' then S.make 1 t.[S.length t - 1] else "")) (split ';' ops))

let skipped = ref 0

let run_c03 path =
  let n = ref 0 and bad = ref 0 in
  let seen = Hashtbl.create 4096 in
  let distinct = ref 0 in
  let cases : (string, string list) Hashtbl.t = Hashtbl.create 4096 in
  let note_class key = if not (Hashtbl.mem seen key) then (Hashtbl.replace seen key (); incr distinct) in
  L.iter (fun line -> match words line with
    | ["oracle"; fr; txt] ->
      Hashtbl.replace oracle fr (if txt = "err" then None else Some (packet_of_s txt))
    | "case" :: k :: rest -> Hashtbl.replace cases k rest
    | "impl" :: k :: obs ->
      (match Hashtbl.find_opt cases k with
       | None -> ()
       | Some ("dec" :: f) ->
         incr n;
         let stream = bytes_of_hex (kv f "stream") in
         let sizes = parse_sizes (kv f "cuts") in
         let lim = n_of_string (kv f "lim") in
         let e = if kv f "end" = "err" then Stream.SErr (n_of_int 1) else Stream.SEof in
         let chunks = cut stream sizes in
         missing_oracle := 0;
         let a = Stream.dec_all Stream.detect_impl decode_oracle lim chunks e in
         let m_pk = match a.Stream.a_frames with [] -> "-" | fs -> S.concat "/" (L.map (fun (_, p) -> s_of_packet p) fs) in
         let m_err = s_of_derr a.Stream.a_err in
         let total = n_of_int (L.length stream) in
         let m_pulled = int_of_n (Stream.pulled total a.Stream.a_state) in
         let i_pk = canon_pkts (kv obs "pkts") and i_err = kv obs "err" and i_pulled = int_of_string (kv obs "pulled") in
         let maxc = L.fold_left max 0 sizes in
         let consumed = L.fold_left (fun s (fr, _) -> s + L.length fr) 0 a.Stream.a_frames in
         let pulled_ok = if maxc <= 4091 then i_pulled = m_pulled else i_pulled <= m_pulled && i_pulled >= consumed in
         if m_pk <> i_pk || m_err <> i_err || not pulled_ok || !missing_oracle > 0 then begin
           incr bad;
           Printf.printf "diff %s dec model: pkts=%s err=%s pulled=%d%s | impl: pkts=%s err=%s pulled=%d\n" k
             m_pk m_err m_pulled (if !missing_oracle > 0 then " (frame without oracle entry)" else "") i_pk i_err i_pulled
         end;
         (* one-chunk run must agree with the chunked run (C03_chunking_irrelevant, evaluated) *)
         let a1 = Stream.dec_all Stream.detect_impl decode_oracle lim [stream] e in
         if Stream.dec_out a1 <> Stream.dec_out a then begin
           incr bad; Printf.printf "diff %s dec model is not chunking-invariant on this input\n" k end;
         let cls = Printf.sprintf "dec %s lim%s n%d c%s t%s" m_err (if kv f "lim" = "0" then "0" else "+")
             (min 6 (L.length a.Stream.a_frames))
             (if maxc <= 1 then "1" else if maxc <= 5 then "5" else if maxc <= 4091 then "m" else "L")
             (match stream with b :: _ -> string_of_int (int_of_byte b / 16) | [] -> "-") in
         note_class cls
       | Some (("enc" | "cn" as kind) :: f) ->
         incr n;
         if kv obs "spont" = "1" then incr skipped else begin
           missing_oracle := 0;
           let (m_res, m_writes) = if kind = "enc" then run_enc f else let (r, w, _) = run_cn f in (r, w) in
           let i_res = L.map canon_res (split '|' (kv obs "res")) and i_writes = kv obs "writes" in
           if m_res <> i_res || m_writes <> i_writes || !missing_oracle > 0 then begin
             incr bad;
             Printf.printf "diff %s %s model: res=%s writes=%s | impl: res=%s writes=%s\n" k kind
               (S.concat "|" m_res) m_writes (S.concat "|" i_res) i_writes end;
           (* class = sequence of (operation kind, result kind), capped *)
           let oc = op_class (kv f "ops") in
           let rc = S.concat "" (L.map (fun r -> S.make 1 r.[0]) m_res) in
           let cap x = if S.length x > 12 then S.sub x 0 12 else x in
           note_class (kind ^ " " ^ cap oc ^ " " ^ cap rc ^ " d" ^ kv f "delay")
         end
       | Some (("tcp" | "ws" as kind) :: f) ->
         incr n;
         let lim = n_of_string (kv f "lim") in
         missing_oracle := 0;
         let (chunks, e) =
           if kind = "tcp" then ([bytes_of_hex (kv f "stream")], Stream.SEof)
           else begin
             let ms = if kv f "msgs" = "-" then [] else L.map (fun m ->
                 { WsStream.wm_binary = (m.[0] = 'b'); WsStream.wm_data = bytes_of_hex (S.sub m 2 (S.length m - 2)) })
                 (split ',' (kv f "msgs")) in
             let total = L.fold_left (fun a m -> a + L.length m.WsStream.wm_data) 0 ms in
             let sizes = L.init (total + L.length ms + 2) (fun i -> n_of_int (if i mod 3 = 0 then 4096 else if i mod 3 = 1 then 7 else 512)) in
             match WsStream.ws_read_all sizes (WsStream.ws_init ms Stream.SEof) with
             | (cs, Some WsStream.WEof) -> (cs, Stream.SEof)
             | (cs, Some WsStream.WNotBinary) -> (cs, Stream.SErr (n_of_int 5))
             | (cs, Some (WsStream.WErr c)) -> (cs, Stream.SErr c)
             | (cs, _) -> (cs, Stream.SErr (n_of_int 99))
           end in
         let a = Stream.dec_all Stream.detect_impl decode_oracle lim chunks e in
         let m_pk = match a.Stream.a_frames with [] -> "-" | fs -> S.concat "/" (L.map (fun (_, p) -> s_of_packet p) fs) in
         let m_err = s_of_derr a.Stream.a_err in
         let i_pk = canon_pkts (kv obs "pkts") and i_err = kv obs "err" in
         if m_pk <> i_pk || m_err <> i_err || !missing_oracle > 0 then begin
           incr bad;
           Printf.printf "diff %s %s model: pkts=%s err=%s | impl: pkts=%s err=%s\n" k kind m_pk m_err i_pk i_err end;
         note_class (Printf.sprintf "%s %s n%d lim%s" kind m_err (min 6 (L.length a.Stream.a_frames)) (if kv f "lim" = "0" then "0" else "+"))
       | Some ("wire" :: f) ->
         incr n;
         let stream = bytes_of_hex (kv f "stream") in
         (* frames only: any frame decodes (content was checked by the harness against what was sent) *)
         let any_decode _ _ = Some Packet.Pingreq in
         (* the chunks are the carrier writes as they were made *)
         let chunks = if kv f "cuts" = "" then [stream] else cut stream (parse_sizes (kv f "cuts")) in
         let a = Stream.dec_all Stream.detect_impl any_decode (n_of_int 0) chunks Stream.SEof in
         let m_frames = L.length a.Stream.a_frames in
         let consumed = L.fold_left (fun s (fr, _) -> s + L.length fr) 0 a.Stream.a_frames in
         let m_partial = L.length stream - consumed in
         let m_err = s_of_derr a.Stream.a_err in
         let ok_err = (m_partial = 0 && m_err = "eof") || (m_partial > 0 && m_err = "ueof") in
         if string_of_int m_frames <> kv obs "frames" || string_of_int m_partial <> kv obs "partial" || not ok_err then begin
           incr bad;
           Printf.printf "diff %s wire model: frames=%d partial=%d err=%s | impl: frames=%s partial=%s\n" k m_frames m_partial m_err
             (kv obs "frames") (kv obs "partial") end;
         note_class (Printf.sprintf "wire f%d p%d" (min m_frames 40) (if m_partial = 0 then 0 else 1))
       | Some _ -> ())
    | _ -> ()) (read_lines path);
  Printf.printf "done cases=%d diffs=%d distinct=%d skipped=%d\n" !n !bad !distinct !skipped

let () = register "c03" run_c03
let () = register "c19" run_c03
