(* drv_codecenc.ml — C01: runs Enc.len_go / encode_go / encode_into / encoder_write,
   WireSpec.wire_spec and WF.wf on the packets of the harness file and compares them
   with what the implementation did (format: see go/cmd/codecenc/main.go).

   propfail <n> <clause> …   the implementation's observed behaviour violates a C01 clause
                             (clauses: encode_total len_spec len_is_written layout wire_exact
                              short_buffer roundtrip varint)
   diff <what> …             model and implementation differ on something the property
                             does not constrain by itself *)
open Conv
module L = Stdlib.List
module S = Stdlib.String

let fld prefix w =
  let lp = S.length prefix in
  if S.length w >= lp && S.sub w 0 lp = prefix then Some (S.sub w lp (S.length w - lp)) else None
let field prefix ws =
  match L.filter_map (fld prefix) ws with x :: _ -> x | [] -> failwith ("missing field " ^ prefix)

let rec repeat_byte b n acc = if n <= 0 then acc else repeat_byte b (n - 1) (b :: acc)

let st_of_wres = function
  | Enc.WOk (n, b) -> Printf.sprintf "ok:%s:%s" (string_of_n n) (hex_of_bytes b)
  | Enc.WErr n -> Printf.sprintf "err:%s" (string_of_n n)
  | Enc.WPanic -> "panic"

(* helper results: the implementation's buffer content is only meaningful on success *)
let canon_helper (s : string) =
  match split ':' s with
  | ["ok"; n; h] -> Printf.sprintf "ok:%s:%s" n h
  | ["err"; n; _] -> Printf.sprintf "err:%s" n
  | "panic" :: _ -> "panic"
  | _ -> s

let varint_class rl =
  if rl < 128 then 1 else if rl < 16384 then 2 else if rl < 2097152 then 3 else if rl <= 268435455 then 4 else 0

(* flag row of a packet: what distinguishes wire layouts besides sizes *)
let flag_row (p : Packet.packet) : string =
  let b x = if x then "1" else "0" in
  match p with
  | Packet.Connect k ->
    Printf.sprintf "v%s c%s w%s u%s p%s" (string_of_n k.Packet.c_version) (b k.Packet.c_clean)
      (match k.Packet.c_will with None -> "-" | Some m -> string_of_n m.Packet.m_qos ^ b m.Packet.m_retain)
      (b (k.Packet.c_username <> [])) (b (k.Packet.c_password <> []))
  | Packet.Connack (sp, rc) -> Printf.sprintf "s%s r%s" (b sp) (string_of_n rc)
  | Packet.Publish (d, m, _) -> Printf.sprintf "d%s q%s r%s" (b d) (string_of_n m.Packet.m_qos) (b m.Packet.m_retain)
  | Packet.Subscribe (_, subs) -> Printf.sprintf "n%d" (min (L.length subs) 9)
  | Packet.Suback (_, cs) -> Printf.sprintf "n%d" (min (L.length cs) 9)
  | Packet.Unsubscribe (_, ts) -> Printf.sprintf "n%d" (min (L.length ts) 9)
  | _ -> ""

let run path =
  (* the extracted list functions are not tail recursive: with 2 MiB packets the stack is deep and
     every minor collection scans it, so keep minor collections rare (256 MiB minor heap) *)
  Gc.set { (Gc.get ()) with Gc.minor_heap_size = 32 * 1024 * 1024 };
  let cases = Hashtbl.create 1024 in
  let n = ref 0 and bad = ref 0 in
  let seen = Hashtbl.create 4096 in
  let distinct = ref 0 in
  let diff fmt = incr bad; Printf.printf fmt in
  let ic = open_in path in
  (try while true do
    let line = input_line ic in
    match words line with
    | "case" :: k :: "pkt" :: text :: extra :: fillb :: _ ->
      Hashtbl.replace cases k (text, int_of_string extra, int_of_string ("0x" ^ fillb))
    | "impl" :: k :: rest ->
      incr n;
      let (text, extra, fillb) = Hashtbl.find cases k in
      Hashtbl.remove cases k;
      let p = packet_of_s text in
      let wf = WF.wf p in
      let spec = WireSpec.wire_spec p in
      let spec_hex = hex_of_bytes spec in
      let mlen = Enc.len_go p in
      let tname = L.hd (split ':' text) in
      let ilen_s = field "len=" rest in
      if ilen_s = "panic" then begin
        incr bad; Printf.printf "propfail %s encode_total Len() panicked pkt=%s\n" k (S.sub text 0 (min 200 (S.length text)))
      end else begin
      let ilen = int_of_string ilen_s in
      let short_text = S.sub text 0 (min 160 (S.length text)) in
      (* Len *)
      if string_of_n mlen <> ilen_s then begin
        if wf && ilen <> L.length spec then
          diff "propfail %s len_spec Len()=%d but the packet occupies %d bytes on the wire pkt=%s\n" k ilen (L.length spec) short_text
        else diff "diff %s len model=%s impl=%d pkt=%s\n" k (string_of_n mlen) ilen short_text end
      else if wf && ilen <> L.length spec then
        diff "propfail %s len_spec Len()=%d but the packet occupies %d bytes on the wire pkt=%s\n" k ilen (L.length spec) short_text;
      (* Encode into exactly Len() bytes (the implementation's Len) *)
      let cap = n_of_int ilen in
      let (est, en, ehex) = match split ':' (field "enc=" rest) with
        | [a; b; c] -> (a, int_of_string b, c) | _ -> failwith "bad enc" in
      let m_enc = Enc.encode_go cap p in
      let m_enc_s = match m_enc with
        | Enc.EOk (mn, bs) -> Printf.sprintf "ok:%s:%s" (string_of_n mn) (hex_of_bytes bs)
        | Enc.EErr mn -> Printf.sprintf "err:%s:-" (string_of_n mn)
        | Enc.EPanic -> "panic:0:-" in
      let i_enc_s = Printf.sprintf "%s:%d:%s" est en ehex in
      let enc_propfail =
        if est = "panic" then Some "encode_total Encode panicked"
        else if wf && est <> "ok" then Some "encode_total Encode rejected a well-formed packet"
        else if est = "ok" && en <> ilen then Some (Printf.sprintf "len_is_written Encode wrote %d bytes, Len() is %d" en ilen)
        else if wf && ehex <> spec_hex then Some "layout encoded bytes differ from the MQTT 3.1.1 layout"
        else None in
      (match enc_propfail with
       | Some msg -> diff "propfail %s %s pkt=%s impl=%s spec=%s\n" k msg short_text
                       (S.sub i_enc_s 0 (min 300 (S.length i_enc_s))) (S.sub spec_hex 0 (min 300 (S.length spec_hex)))
       | None ->
         if m_enc_s <> i_enc_s then
           diff "diff %s enc pkt=%s model=%s impl=%s\n" k short_text
             (S.sub m_enc_s 0 (min 300 (S.length m_enc_s))) (S.sub i_enc_s 0 (min 300 (S.length i_enc_s))));
      (* Encode into a dirty oversized buffer *)
      let (dst, dn, dsame, dtail) = match split ':' (field "dirty=" rest) with
        | [a; b; c; d] -> (a, int_of_string b, c = "1", d = "1") | _ -> failwith "bad dirty" in
      let dirty_buf = repeat_byte (byte_of_int fillb) (ilen + extra) [] in
      let m_dirty = match Enc.encode_into dirty_buf p with
        | Enc.BOk (mn, d) ->
          let mn' = int_of_n mn in
          let written = Enc.take mn d and rest' = Enc.drop mn d in
          let same = (match m_enc with Enc.EOk (_, bs) -> bs = written | _ -> false) in
          let tail = L.for_all (fun x -> int_of_byte x = fillb) rest' in
          Printf.sprintf "ok:%d:%b:%b" mn' same tail
        | Enc.BErr mn -> Printf.sprintf "err:%d:false:false" (int_of_n mn)
        | Enc.BPanic -> "panic:0:false:false" in
      let i_dirty = Printf.sprintf "%s:%d:%b:%b" dst dn dsame dtail in
      if dst = "panic" then diff "propfail %s encode_total Encode into an oversized buffer panicked pkt=%s\n" k short_text
      else if dst = "ok" && est = "ok" && not dsame then
        diff "propfail %s wire_exact Encode into a dirty oversized buffer leaves other bytes in the first Len() bytes than Encode into a clean one pkt=%s\n" k short_text
      else if dst = "ok" && dn <> ilen then
        diff "propfail %s len_is_written Encode into an oversized buffer wrote %d bytes, Len() is %d pkt=%s\n" k dn ilen short_text
      else if m_dirty <> i_dirty then diff "diff %s dirty pkt=%s model=%s impl=%s\n" k short_text m_dirty i_dirty;
      (* Encode into Len()-1 bytes *)
      let (sst, sn) = match split ':' (field "short=" rest) with
        | [a; b] -> (a, int_of_string b) | _ -> failwith "bad short" in
      let m_short = if ilen >= 1 then (match Enc.encode_go (n_of_int (ilen - 1)) p with
          | Enc.EOk (mn, _) -> Printf.sprintf "ok:%s" (string_of_n mn)
          | Enc.EErr mn -> Printf.sprintf "err:%s" (string_of_n mn)
          | Enc.EPanic -> "panic:0") else "err:0" in
      if sst <> "err" then
        diff "propfail %s short_buffer Encode into Len()-1 bytes did not fail with an error (%s) pkt=%s\n" k sst short_text
      else if m_short <> Printf.sprintf "%s:%d" sst sn then
        diff "diff %s short pkt=%s model=%s impl=%s:%d\n" k short_text m_short sst sn;
      (* Encoder.Write after a larger packet went through the pool *)
      let wr = field "wr=" rest in
      let (wst, whex) = match split ':' wr with [a; b] -> (a, b) | _ -> failwith "bad wr" in
      let whex = if whex = "=" then ehex else whex in
      let prior = repeat_byte (byte_of_int 0xee) (ilen + 64) [] in
      let m_wr = match Enc.encoder_write prior p with
        | Enc.XSent bs -> "ok:" ^ hex_of_bytes bs
        | Enc.XErr -> "err:-"
        | Enc.XPanic -> "panic:-" in
      if wst = "panic" then diff "propfail %s wire_exact Encoder.Write panicked pkt=%s\n" k short_text
      else if wf && (wst <> "ok" || whex <> spec_hex) then
        diff "propfail %s wire_exact Encoder.Write put other bytes on the wire than the MQTT 3.1.1 layout pkt=%s sent=%s:%s spec=%s\n" k short_text wst
          (S.sub whex 0 (min 300 (S.length whex))) (S.sub spec_hex 0 (min 300 (S.length spec_hex)))
      else if wst = "ok" && est = "ok" && whex <> ehex then
        diff "propfail %s wire_exact Encoder.Write sent other bytes than Encode produced (stale pool bytes?) pkt=%s sent=%s enc=%s\n" k short_text
          (S.sub whex 0 (min 300 (S.length whex))) (S.sub ehex 0 (min 300 (S.length ehex)))
      else if m_wr <> (wst ^ ":" ^ whex) then
        diff "diff %s write pkt=%s model=%s impl=%s:%s\n" k short_text (S.sub m_wr 0 (min 300 (S.length m_wr))) wst (S.sub whex 0 (min 300 (S.length whex)));
      (* round trip on the implementation *)
      (match split ':' (field "rt=" rest) with
       | rst :: rn :: rtext ->
         let rtext = S.concat ":" rtext in
         if wf && est = "ok" then begin
           if rst <> "ok" then diff "propfail %s roundtrip Decode of the encoded bytes failed (%s) pkt=%s\n" k rst short_text
           else if int_of_string rn <> en then diff "propfail %s roundtrip Decode consumed %s of %d bytes pkt=%s\n" k rn en short_text
           else if rtext <> "=" then
             diff "propfail %s roundtrip decoded packet differs pkt=%s decoded=%s\n" k short_text (S.sub rtext 0 (min 200 (S.length rtext)))
         end
       | _ -> failwith "bad rt");
      (* coverage class *)
      let rl = int_of_n (WF.body_len p) in
      let key = Printf.sprintf "%s|%d|%s|%s|%s" tname (varint_class rl) (flag_row p) (if wf then "wf" else "nwf") est in
      if not (Hashtbl.mem seen key) then (Hashtbl.replace seen key (); incr distinct)
      end
    | "hv" :: num :: l :: _ ->
      incr n;
      let m = string_of_n (Enc.varint_len_go (n_of_string num)) in
      if m <> l then diff "diff hv varintLen(%s) model=%s impl=%s\n" num m l
    | "hh" :: rl :: l :: _ ->
      incr n;
      let m = string_of_n (Enc.header_len_go (n_of_string rl)) in
      if m <> l then diff "diff hh headerLen(%s) model=%s impl=%s\n" rl m l
    | "hw" :: num :: cap :: res :: _ ->
      incr n;
      let x = n_of_string num and c = int_of_string cap in
      let buf = repeat_byte (byte_of_int 0xa5) c [] in
      let m = st_of_wres (Enc.write_varint buf x) in
      let i = canon_helper res in
      if m <> i then diff "diff hw writeVarint(%s) cap=%s model=%s impl=%s\n" num cap m i;
      (* 2.2.3 directly: with room for 4 bytes every value up to 268435455 is written as the standard says *)
      (match split ':' res with
       | ["ok"; wn; h] when c >= 4 ->
         let sp = WireSpec.remaining_length x in
         let got = S.sub h 0 (2 * int_of_string wn) in
         if hex_of_bytes sp <> got then diff "propfail hw varint writeVarint(%s) wrote %s, MQTT 2.2.3 says %s\n" num got (hex_of_bytes sp)
       | [st; _; _] when c >= 4 && Z.leq (Z.of_string num) (Z.of_int 268435455) ->
         diff "propfail hw varint writeVarint(%s) with %d bytes of room: %s\n" num c st
       | _ -> ())
    | "he" :: t :: flags :: rl :: tl :: cap :: res :: _ ->
      incr n;
      (match Packet.type_of_code (n_of_string t) with
       | None -> ()      (* the model's ptype has only the 14 valid types *)
       | Some ty ->
         let c = int_of_string cap in
         let buf = repeat_byte (byte_of_int 0xa5) c [] in
         let m = match Enc.finish (Enc.encode_header buf (n_of_string flags) (n_of_string rl) (n_of_string tl) ty) with
           | Enc.BOk (mn, d) -> Printf.sprintf "ok:%s:%s" (string_of_n mn) (hex_of_bytes d)
           | Enc.BErr mn -> Printf.sprintf "err:%s" (string_of_n mn)
           | Enc.BPanic -> "panic" in
         let i = canon_helper res in
         if m <> i then diff "diff he encodeHeader type=%s flags=%s rl=%s tl=%s cap=%s model=%s impl=%s\n" t flags rl tl cap m i)
    | "hl" :: cap :: len :: seed :: res :: _ ->
      incr n;
      let c = int_of_string cap and l = int_of_string len and s = int_of_string seed in
      let buf = repeat_byte (byte_of_int 0xa5) c [] in
      let data = L.init l (fun i -> byte_of_int (s + i)) in
      let m = st_of_wres (Enc.write_lp_bytes buf data) in
      let i = canon_helper res in
      if m <> i then diff "diff hl writeLPBytes cap=%s len=%s model=%s impl=%s\n" cap len
          (S.sub m 0 (min 200 (S.length m))) (S.sub i 0 (min 200 (S.length i)))
    | "hu" :: cap :: num :: width :: res :: _ ->
      incr n;
      let buf = repeat_byte (byte_of_int 0xa5) (int_of_string cap) [] in
      let m = st_of_wres ((if width = "1" then Enc.write_u8 else Enc.write_u16) buf (n_of_string num)) in
      let i = canon_helper res in
      if m <> i then diff "diff hu writeUint cap=%s num=%s width=%s model=%s impl=%s\n" cap num width m i
    | "tt" :: nib :: df :: valid :: nt :: gid :: _ ->
      incr n;
      let (mdf, mvalid, mnt, mgid) = match Packet.type_of_code (n_of_string nib) with
        | None -> ("0", "0", "-1", "-1")
        | Some ty ->
          let sample = (match ty with
            | Packet.TConnect -> Packet.Connect { Packet.c_client_id = []; c_keep_alive = N0; c_username = []; c_password = [];
                                                  c_clean = true; c_will = None; c_version = n_of_int 4 }
            | Packet.TConnack -> Packet.Connack (false, N0)
            | Packet.TPublish -> Packet.Publish (false, { Packet.m_topic = []; m_payload = []; m_qos = N0; m_retain = false }, n_of_int 4711)
            | Packet.TPuback -> Packet.Puback (n_of_int 4711) | Packet.TPubrec -> Packet.Pubrec (n_of_int 4711)
            | Packet.TPubrel -> Packet.Pubrel (n_of_int 4711) | Packet.TPubcomp -> Packet.Pubcomp (n_of_int 4711)
            | Packet.TSubscribe -> Packet.Subscribe (n_of_int 4711, []) | Packet.TSuback -> Packet.Suback (n_of_int 4711, [])
            | Packet.TUnsubscribe -> Packet.Unsubscribe (n_of_int 4711, []) | Packet.TUnsuback -> Packet.Unsuback (n_of_int 4711)
            | Packet.TPingreq -> Packet.Pingreq | Packet.TPingresp -> Packet.Pingresp | Packet.TDisconnect -> Packet.Disconnect) in
          (string_of_n (Packet.default_flags ty), "1", string_of_n (Packet.type_code (Packet.ptype_of sample)),
           (match Packet.get_id sample with Some i -> string_of_n i | None -> "-1")) in
      if (mdf, mvalid, mnt, mgid) <> (df, valid, nt, gid) then
        diff "diff tt type=%s model=%s,%s,%s,%s impl=%s,%s,%s,%s\n" nib mdf mvalid mnt mgid df valid nt gid
    | _ -> ()
  done with End_of_file -> close_in ic);
  Printf.printf "done cases=%d diffs=%d distinct=%d\n" !n !bad !distinct

let () = register "c01" run
