(* drv_codecenc.ml — C01: runs Enc.len_go / encode_go / encode_into / encoder_write,
   WireSpec.wire_spec and WF.wf on the packets of the harness file and compares them
   with what the implementation did (format: see go/cmd/codecenc/main.go).

   propfail <n> <clause> …   the implementation's observed behaviour violates a C01 clause
                             (clauses: encode_total len_spec len_is_written layout wire_exact
                              short_buffer roundtrip varint)
   diff <what> …             model and implementation differ on something the property
                             does not constrain by itself *)
open Conv
module L = Stdlib.List
module S = Stdlib.String

let fld prefix w =
  let lp = S.length prefix in
  if S.length w >= lp && S.sub w 0 lp = prefix then Some (S.sub w lp (S.length w - lp)) else None
let field prefix ws =
  match L.filter_map (fld prefix) ws with x :: _ -> x | [] -> failwith ("missing field " ^ prefix)

let rec repeat_byte b n acc = if n <= 0 then acc else repeat_byte b (n - 1) (b :: acc)

let st_of_wres = function
  | Enc.WOk (n, b) -> Printf.sprintf "ok:%s:%s" (string_of_n n) (hex_of_bytes b)
  | Enc.WErr n -> Printf.sprintf "err:%s" (string_of_n n)
  | Enc.WPanic -> "panic"

(* helper results: the implementation's buffer content is only meaningful on success *)
let canon_helper (s : string) =
  match split ':' s with
  | ["ok"; n; h] -> Printf.sprintf "ok:%s:%s" n h
  | ["err"; n; _] -> Printf.sprintf "err:%s" n
  | "panic" :: _ -> "panic"
  | _ -> s

let varint_class rl =
  if rl < 128 then 1 else if rl < 16384 then 2 else if rl < 2097152 then 3 else if rl <= 268435455 then 4 else 0

(* flag row of a packet: what distinguishes wire layouts besides sizes *)
let flag_row (p : Packet.packet) : string =
  let b x = if x then "1" else "0" in
  match p with
  | Packet.Connect k ->
    Printf.sprintf "v%s c%s w%s u%s p%s" (string_of_n k.Packet.c_version) (b k.Packet.c_clean)
      (match k.Packet.c_will with None -> "-" | Some m -> string_of_n m.Packet.m_qos ^ b m.Packet.m_retain)
      (b (k.Packet.c_username <> [])) (b (k.Packet.c_password <> []))
  | Packet.Connack (sp, rc) -> Printf.sprintf "s%s r%s" (b sp) (string_of_n rc)
  | Packet.Publish (d, m, _) -> Printf.sprintf "d%s q%s r%s" (b d) (string_of_n m.Packet.m_qos) (b m.Packet.m_retain)
  | Packet.Subscribe (_, subs) -> Printf.sprintf "n%d" (min (L.length subs) 9)
  | Packet.Suback (_, cs) -> Printf.sprintf "n%d" (min (L.length cs) 9)
  | Packet.Unsubscribe (_, ts) -> Printf.sprintf "n%d" (min (L.length ts) 9)
  | _ -> ""

let run path =
  (* the extracted list functions are not tail recursive: with 2 MiB packets the stack is deep and
     every minor collection scans it, so keep minor collections rare (256 MiB minor heap) *)
  Gc.set { (Gc.get ()) with Gc.minor_heap_size = 32 * 1024 * 1024 };
  let cases = Hashtbl.create 1024 in
  let done_cases : (string, Packet.packet * Byte.byte list) Hashtbl.t = Hashtbl.create 1024 in
  let n = ref 0 and bad = ref 0 in
  let seen = Hashtbl.create 4096 in
  let distinct = ref 0 in
  let diff fmt = incr bad; Printf.printf fmt in
  let ic = open_in path in
  (try while true do
    let line = input_line ic in
    match words line with
    | "case" :: k :: "pkt" :: text :: extra :: fillb :: _ ->
      Hashtbl.replace cases k (text, int_of_string extra, int_of_string ("0x" ^ fillb))
    | "impl" :: k :: rest ->
      incr n;
      let (text, extra, fillb) = Hashtbl.find cases k in
      Hashtbl.remove cases k;
      let p = packet_of_s text in
      let wf = WF.wf p in
      let tname = L.hd (split ':' text) in
      let short_text = S.sub text 0 (min 160 (S.length text)) in
      let cut s = S.sub s 0 (min 300 (S.length s)) in
      let ilen_s = field "len=" rest in
      if ilen_s = "panic" then begin
        incr bad; Printf.printf "propfail %s encode_total Len() panicked pkt=%s\n" k short_text
      end else begin
      let ilen = int_of_string ilen_s in
      let fill = byte_of_int fillb in
      (* ---- the observation, as the judges of Codec/EncJudge.v take it ---- *)
      let eres_of st nn bytes = match st with
        | "ok" -> Enc.EOk (n_of_int nn, bytes) | "err" -> Enc.EErr (n_of_int (max nn 0)) | _ -> Enc.EPanic in
      let (est, en, ehex) = match split ':' (field "enc=" rest) with
        | [a; b; c] -> (a, int_of_string b, c) | _ -> failwith "bad enc" in
      let ebytes = if est = "ok" then bytes_of_hex ehex else [] in
      let o_enc = eres_of est en ebytes in
      let (l2, ast, an, ahex) = match split ':' (field "again=" rest) with
        | [a; b; c; d] -> (int_of_string a, b, int_of_string c, d) | _ -> failwith "bad again" in
      let o_again = eres_of ast an (if ast <> "ok" then [] else if ahex = "=" then ebytes else bytes_of_hex ahex) in
      let (dst, dn, dhex) = match split ':' (field "dirty=" rest) with
        | [a; b; c] -> (a, int_of_string b, c) | _ -> failwith "bad dirty" in
      let o_dirty = match dst with
        | "ok" -> Enc.BOk (n_of_int dn, if dhex = "=" then ebytes @ repeat_byte fill (ilen + extra - L.length ebytes) [] else bytes_of_hex dhex)
        | "err" -> Enc.BErr (n_of_int (max dn 0)) | _ -> Enc.BPanic in
      let shorts_s = field "short=" rest in
      let shorts = if shorts_s = "-" then [] else L.map (fun x -> match split ':' x with
          | [c; st; sn] -> (int_of_string c, st, int_of_string sn) | _ -> failwith "bad short") (split ',' shorts_s) in
      let o_shorts = L.map (fun (c, st, sn) -> (n_of_int c, eres_of st sn [])) shorts in
      let (wst, whex) = match split ':' (field "wr=" rest) with [a; b] -> (a, b) | _ -> failwith "bad wr" in
      let o_wr = match wst with
        | "ok" -> Enc.XSent (if whex = "=" then ebytes else bytes_of_hex whex) | "err" -> Enc.XErr | _ -> Enc.XPanic in
      let o_cold = match split ':' (field "cold=" rest) with
        | ["ok"; h] -> Some (Enc.XSent (if h = "=" then ebytes else bytes_of_hex h), "ok", h)
        | ["err"; h] -> Some (Enc.XErr, "err", h) | [_; h] -> Some (Enc.XPanic, "panic", h) | _ -> None in
      let (rst, rn, rtext) = match split ':' (field "rt=" rest) with
        | a :: b :: c -> (a, int_of_string b, S.concat ":" c) | _ -> failwith "bad rt" in
      let o_rt = match rst with
        | "ok" -> Dec.DOk ((if rtext = "=" then p else packet_of_s rtext), n_of_int rn)
        | "panic" -> Dec.DPanic | _ -> Dec.DErr (n_of_int (max rn 0)) in
      let o = { EncJudge.o_len = n_of_int ilen; o_enc; o_len2 = n_of_int (max l2 0); o_again; o_fill = fill;
                o_extra = n_of_int extra; o_dirty; o_shorts; o_wr; o_rt } in
      (* ---- the judges (extracted; each proved of the model: C01_judges_sound) ---- *)
      let verdicts = [
        ("encode_total", EncJudge.j_encode_total p o,
           (fun () -> Printf.sprintf "Encode panicked or rejected a well-formed packet: enc=%s again=%s dirty=%s short=%s" est ast dst shorts_s));
        ("len_spec", EncJudge.j_len_spec p o, (fun () -> Printf.sprintf "Len()=%d, the MQTT 3.1.1 layout of the packet occupies %s bytes" ilen (string_of_n (WF.total_len p))));
        ("len_is_written", EncJudge.j_len_is_written p o,
           (fun () -> Printf.sprintf "Len()=%d (again %d) but Encode returned %d / %d bytes (second call %d, oversized buffer %d)" ilen l2 en (L.length ebytes) an dn));
        ("layout", EncJudge.j_layout p o,
           (fun () -> Printf.sprintf "encoded bytes differ from the MQTT 3.1.1 layout: impl=%s:%d:%s again=%s:%s spec=%s" est en (cut ehex) ast (cut ahex)
             (cut (hex_of_bytes (WireSpec.wire_spec p)))));
        ("wire_exact", EncJudge.j_dirty p o,
           (fun () -> Printf.sprintf "Encode into a dirty buffer of Len()+%d bytes (fill %02x): first Len() bytes are not the layout or bytes beyond were written: %s:%d:%s" extra fillb dst dn (cut dhex)));
        ("short_buffer", EncJudge.j_short p o, (fun () -> Printf.sprintf "Encode into fewer than Len()=%d bytes did not fail with an error: %s" ilen shorts_s));
        ("wire_exact", EncJudge.j_wire_exact p o,
           (fun () -> Printf.sprintf "Encoder.Write put other bytes on the wire than the layout / than Len() bytes (stale pool bytes?): sent=%s:%s enc=%s spec=%s" wst (cut whex) (cut ehex)
             (cut (hex_of_bytes (WireSpec.wire_spec p)))));
        ("wire_exact", (match o_cold with None -> true | Some (x, _, _) -> EncJudge.j_wire_exact p { o with EncJudge.o_wr = x }),
           (fun () -> match o_cold with Some (_, cst, ch) ->
              Printf.sprintf "Encoder.Write with an empty buffer pool put other bytes on the wire than the layout: sent=%s:%s spec=%s" cst (cut ch) (cut (hex_of_bytes (WireSpec.wire_spec p)))
            | None -> ""));
        ("roundtrip", (est <> "ok") || EncJudge.j_roundtrip p o,
           (fun () -> Printf.sprintf "Decode of the encoded bytes: %s consumed %d of %d decoded=%s" rst rn en (S.sub rtext 0 (min 200 (S.length rtext))))) ] in
      let failed = L.filter (fun (_, ok, _) -> not ok) verdicts in
      L.iter (fun (clause, _, msg) -> incr bad; Printf.printf "propfail %s %s %s pkt=%s\n" k clause (msg ()) short_text) failed;
      (* ---- the tie: model vs implementation on everything observed ---- *)
      if failed = [] then begin
        let s_eres = function
          | Enc.EOk (mn, bs) -> Printf.sprintf "ok:%s:%s" (string_of_n mn) (hex_of_bytes bs)
          | Enc.EErr mn -> Printf.sprintf "err:%s" (string_of_n mn) | Enc.EPanic -> "panic" in
        let mlen = Enc.len_go p in
        if string_of_n mlen <> ilen_s then diff "diff %s len model=%s impl=%d pkt=%s\n" k (string_of_n mlen) ilen short_text;
        let m_enc = s_eres (Enc.encode_go (n_of_int ilen) p) in
        let i_enc = s_eres o_enc in
        if m_enc <> i_enc then diff "diff %s enc pkt=%s model=%s impl=%s\n" k short_text (cut m_enc) (cut i_enc);
        (* large packets (> 40000 bytes): the tie on Len and Encode only (the judges above saw every observation) *)
        if ilen <= 40000 then begin
        let dirty_buf = repeat_byte fill (ilen + extra) [] in
        let s_bres = function
          | Enc.BOk (mn, d) -> Printf.sprintf "ok:%s:%s" (string_of_n mn) (hex_of_bytes d)
          | Enc.BErr mn -> Printf.sprintf "err:%s" (string_of_n mn) | Enc.BPanic -> "panic" in
        let m_dirty = s_bres (Enc.encode_into dirty_buf p) and i_dirty = s_bres o_dirty in
        if m_dirty <> i_dirty then diff "diff %s dirty pkt=%s model=%s impl=%s\n" k short_text (cut m_dirty) (cut i_dirty);
        L.iter (fun (c, st, sn) ->
            let m = s_eres (Enc.encode_go (n_of_int c) p) and i = s_eres (eres_of st sn []) in
            let strip x = match split ':' x with [a; b; _] -> a ^ ":" ^ b | _ -> x in
            if strip m <> strip i then diff "diff %s short cap=%d pkt=%s model=%s impl=%s\n" k c short_text (cut m) (cut i)) shorts;
        let prior = repeat_byte (byte_of_int 0xee) (ilen + 64) [] in
        let s_x = function Enc.XSent bs -> "ok:" ^ hex_of_bytes bs | Enc.XErr -> "err" | Enc.XPanic -> "panic" in
        let m_wr = s_x (Enc.encoder_write prior p) and i_wr = s_x o_wr in
        if m_wr <> i_wr then diff "diff %s write pkt=%s model=%s impl=%s\n" k short_text (cut m_wr) (cut i_wr)
        end
      end;
      (* remember the case for the stream batches *)
      if est = "ok" && en < 70000 then Hashtbl.replace done_cases k (p, ebytes);
      (* coverage class *)
      let rl = int_of_n (WF.body_len p) in
      let key = Printf.sprintf "%s|%d|%s|%s|%s" tname (varint_class rl) (flag_row p) (if wf then "wf" else "nwf") est in
      if not (Hashtbl.mem seen key) then (Hashtbl.replace seen key (); incr distinct)
      end
    | "batch" :: ks :: res :: _ ->
      incr n;
      let ids = split ',' ks in
      if L.for_all (Hashtbl.mem done_cases) ids then begin
        let items = L.map (Hashtbl.find done_cases) ids in
        let (st, h) = match split ':' res with [a; b] -> (a, b) | _ -> failwith "bad batch" in
        let wire = if h = "=" then L.concat (L.map snd items) else bytes_of_hex h in
        if st <> "ok" || not (EncJudge.j_stream (L.map fst items) wire) then begin
          incr bad;
          Printf.printf "propfail batch wire_exact ids=%s written through one Encoder (asynchronously, then flushed): %s, the wire does not carry the concatenation of their layouts: %s\n"
            ks st (S.sub h 0 (min 300 (S.length h))) end
        else if h <> "=" then diff "diff batch %s wire differs from the concatenation of the single encodings\n" ks
      end
    | "hv" :: num :: l :: _ ->
      incr n;
      let m = string_of_n (Enc.varint_len_go (n_of_string num)) in
      if m <> l then diff "diff hv varintLen(%s) model=%s impl=%s\n" num m l
    | "hh" :: rl :: l :: _ ->
      incr n;
      let m = string_of_n (Enc.header_len_go (n_of_string rl)) in
      if m <> l then diff "diff hh headerLen(%s) model=%s impl=%s\n" rl m l
    | "hw" :: num :: cap :: res :: _ ->
      incr n;
      let x = n_of_string num and c = int_of_string cap in
      let buf = repeat_byte (byte_of_int 0xa5) c [] in
      let m = st_of_wres (Enc.write_varint buf x) in
      let i = canon_helper res in
      if m <> i then diff "diff hw writeVarint(%s) cap=%s model=%s impl=%s\n" num cap m i;
      (* 2.2.3 directly: with room for 4 bytes every value up to 268435455 is written as the standard says *)
      (match split ':' res with
       | ["ok"; wn; h] when c >= 4 ->
         let sp = WireSpec.remaining_length x in
         let got = S.sub h 0 (2 * int_of_string wn) in
         if hex_of_bytes sp <> got then diff "propfail hw varint writeVarint(%s) wrote %s, MQTT 2.2.3 says %s\n" num got (hex_of_bytes sp)
       | [st; _; _] when c >= 4 && Z.leq (Z.of_string num) (Z.of_int 268435455) ->
         diff "propfail hw varint writeVarint(%s) with %d bytes of room: %s\n" num c st
       | _ -> ())
    | "he" :: t :: flags :: rl :: tl :: cap :: res :: _ ->
      incr n;
      (match Packet.type_of_code (n_of_string t) with
       | None -> ()      (* the model's ptype has only the 14 valid types *)
       | Some ty ->
         let c = int_of_string cap in
         let buf = repeat_byte (byte_of_int 0xa5) c [] in
         let m = match Enc.finish (Enc.encode_header buf (n_of_string flags) (n_of_string rl) (n_of_string tl) ty) with
           | Enc.BOk (mn, d) -> Printf.sprintf "ok:%s:%s" (string_of_n mn) (hex_of_bytes d)
           | Enc.BErr mn -> Printf.sprintf "err:%s" (string_of_n mn)
           | Enc.BPanic -> "panic" in
         let i = canon_helper res in
         let observed = match split ':' res with
           | ["ok"; hn; h] -> Enc.BOk (n_of_string hn, bytes_of_hex h)
           | "err" :: hn :: _ -> Enc.BErr (n_of_string hn)
           | _ -> Enc.BPanic in
         if not (EncJudge.j_header ty (n_of_string flags) (n_of_string rl) (n_of_string tl) (n_of_int c) observed) then begin
           incr bad;
           Printf.printf "propfail he layout encodeHeader type=%s flags=%s rl=%s tl=%s cap=%s: %s, the fixed header of MQTT 2.2 is %s\n" t flags rl tl cap
             (S.sub i 0 (min 80 (S.length i))) (hex_of_bytes (EncJudge.header_bytes ty (n_of_string flags) (n_of_string rl))) end
         else if m <> i then diff "diff he encodeHeader type=%s flags=%s rl=%s tl=%s cap=%s model=%s impl=%s\n" t flags rl tl cap m i)
    | "hl" :: cap :: len :: seed :: res :: _ ->
      incr n;
      let c = int_of_string cap and l = int_of_string len and s = int_of_string seed in
      let buf = repeat_byte (byte_of_int 0xa5) c [] in
      let data = L.init l (fun i -> byte_of_int (s + i)) in
      let m = st_of_wres (Enc.write_lp_bytes buf data) in
      let i = canon_helper res in
      if m <> i then diff "diff hl writeLPBytes cap=%s len=%s model=%s impl=%s\n" cap len
          (S.sub m 0 (min 200 (S.length m))) (S.sub i 0 (min 200 (S.length i)))
    | "hu" :: cap :: num :: width :: res :: _ ->
      incr n;
      let buf = repeat_byte (byte_of_int 0xa5) (int_of_string cap) [] in
      let m = st_of_wres ((if width = "1" then Enc.write_u8 else Enc.write_u16) buf (n_of_string num)) in
      let i = canon_helper res in
      if m <> i then diff "diff hu writeUint cap=%s num=%s width=%s model=%s impl=%s\n" cap num width m i
    | "tt" :: nib :: df :: valid :: nt :: gid :: _ ->
      incr n;
      let (mdf, mvalid, mnt, mgid) = match Packet.type_of_code (n_of_string nib) with
        | None -> ("0", "0", "-1", "-1")
        | Some ty ->
          let sample = (match ty with
            | Packet.TConnect -> Packet.Connect { Packet.c_client_id = []; c_keep_alive = N0; c_username = []; c_password = [];
                                                  c_clean = true; c_will = None; c_version = n_of_int 4 }
            | Packet.TConnack -> Packet.Connack (false, N0)
            | Packet.TPublish -> Packet.Publish (false, { Packet.m_topic = []; m_payload = []; m_qos = N0; m_retain = false }, n_of_int 4711)
            | Packet.TPuback -> Packet.Puback (n_of_int 4711) | Packet.TPubrec -> Packet.Pubrec (n_of_int 4711)
            | Packet.TPubrel -> Packet.Pubrel (n_of_int 4711) | Packet.TPubcomp -> Packet.Pubcomp (n_of_int 4711)
            | Packet.TSubscribe -> Packet.Subscribe (n_of_int 4711, []) | Packet.TSuback -> Packet.Suback (n_of_int 4711, [])
            | Packet.TUnsubscribe -> Packet.Unsubscribe (n_of_int 4711, []) | Packet.TUnsuback -> Packet.Unsuback (n_of_int 4711)
            | Packet.TPingreq -> Packet.Pingreq | Packet.TPingresp -> Packet.Pingresp | Packet.TDisconnect -> Packet.Disconnect) in
          (string_of_n (Packet.default_flags ty), "1", string_of_n (Packet.type_code (Packet.ptype_of sample)),
           (match Packet.get_id sample with Some i -> string_of_n i | None -> "-1")) in
      if (mdf, mvalid, mnt, mgid) <> (df, valid, nt, gid) then
        diff "diff tt type=%s model=%s,%s,%s,%s impl=%s,%s,%s,%s\n" nib mdf mvalid mnt mgid df valid nt gid
    | _ -> ()
  done with End_of_file -> close_in ic);
  Printf.printf "done cases=%d diffs=%d distinct=%d\n" !n !bad !distinct

let () = register "c01" run
