(* drv_codecdec.ml — C02: runs decode_go / detect_go (Dec.v) and ref_decode / extent
   (RefDecode.v) on the inputs of go/cmd/codecdec and compares with what the Go decoder did.

   case <id> <gen> <hex> e=<extent|-> det=<len>,<type>|panic <obs> ...
   obs = <variant r|f|t>/<type>/<tailhex>/<ok/<n>/<packet> | err/<n> | panic>
   x3 <b0b1> <256 tokens kind n , detect length>

   obs for packet.Decoder: s/<limit>/<tailhex>/<first Read>/<next Read>, a Read being p=<packet> | e=<kind> | panic | -
   propfail <id> no_panic | consumed | spec_equiv | local | local_connect | detect_agrees | detect_view | stream_read ...
       the implementation's observed behaviour violates that clause of C02 on this input
   diff <id> ...    model and implementation differ on something the clauses do not fix *)
open Conv
module L = Stdlib.List
module S = Stdlib.String

let rec z_of_pos = function
  | BinNums.Coq_xH -> Z.one
  | BinNums.Coq_xO p -> Z.shift_left (z_of_pos p) 1
  | BinNums.Coq_xI p -> Z.succ (Z.shift_left (z_of_pos p) 1)
let string_of_z = function
  | BinNums.Z0 -> "0"
  | BinNums.Zpos p -> Z.to_string (z_of_pos p)
  | BinNums.Zneg p -> "-" ^ Z.to_string (z_of_pos p)

let ptype_of_int i = match Packet.type_of_code (n_of_int i) with Some t -> t | None -> failwith "bad type"

type res = Ok of int * string | Err of int | Panic
let s_of_res = function Ok (n, p) -> Printf.sprintf "ok/%d/%s" n p | Err n -> Printf.sprintf "err/%d" n | Panic -> "panic"

let model_res t buf = match Dec.decode_go t buf with
  | Dec.DOk (p, n) -> Ok (int_of_n n, s_of_packet p)
  | Dec.DErr n -> Err (int_of_n n)
  | Dec.DPanic -> Panic
let ref_res t buf = match RefDecode.ref_decode t buf with
  | Some (p, n) -> Some (int_of_n n, s_of_packet p)
  | None -> None

let s_of_derr = function
  | Stream.EEof -> "eof" | Stream.EUnexpectedEof -> "ueof" | Stream.EDetectionOverflow -> "detov"
  | Stream.EReadLimit -> "limit" | Stream.EInvalidType -> "badtype" | Stream.EDecode -> "decode"
  | Stream.ESource _ -> "src" | Stream.EOutOfFuel -> "fuel"
(* ReadSpec.read_spec: what one Decoder.Read must return, and what is left of the stream *)
let spec_read lim bs =
  match ReadSpec.read_spec (n_of_int lim) bs Stream.SEof with
  | (((Stream.RPacket (_, p), _), _), rest) -> ("p=" ^ s_of_packet p, Some rest)
  | (((Stream.RFail e, _), _), _) -> ("e=" ^ s_of_derr e, None)
(* the stream decoder's view of a DetectPacket result: positive length and type, or need-more *)
let s_of_detection = function
  | Stream.DetNeedMore -> "needmore"
  | Stream.DetLen (l, t) -> string_of_n l ^ "," ^ string_of_n t

(* clause forwardable (WF.forwardable, evaluated): an admitted application message, re-published at
   every QoS up to its own with an id valid for that QoS, is a well-formed packet (which the encoder
   side proves encodable) *)
let forward_ok (m : Packet.message) : bool =
  let q0 = int_of_n m.Packet.m_qos in
  let rec go q = q > q0 || q > 2 ||
    (WF.wf (Packet.Publish (false, { m with Packet.m_qos = n_of_int q }, n_of_int (if q = 0 then 0 else 65535))) && go (q + 1)) in
  go 0 && q0 <= 2
let admitted_messages (p : Packet.packet) : Packet.message list = match p with
  | Packet.Publish (_, m, _) -> [m]
  | Packet.Connect c -> (match c.Packet.c_will with Some m -> [m] | None -> [])
  | _ -> []

let rec take n l = if n <= 0 then [] else match l with [] -> [] | x :: r -> x :: take (n - 1) r

let run path =
  let cases = ref 0 and bad = ref 0 and distinct = ref 0 in
  let seen = Hashtbl.create 65536 in
  let ic = open_in path in
  let fail kind id fmt = incr bad; Printf.printf ("%s %s " ^^ fmt ^^ "\n") kind id in
  (try while true do
    let line = input_line ic in
    match words line with
    | "case" :: id :: gen :: hex :: e :: det :: obs ->
      let input = bytes_of_hex hex in
      let ilen = L.length input in
      (* extent: the Coq definition; the harness value must agree (it decides which variants exist) *)
      let ext = match RefDecode.extent input with Some n -> Some (int_of_n n) | None -> None in
      let es = (match ext with Some n -> string_of_int n | None -> "-") in
      if "e=" ^ es <> e then fail "diff" id "extent model=%s harness=%s input=%s" es e hex;
      (* detection *)
      let mdet = (match Dec.detect_go input with
        | Dec.Detected (l, t) -> string_of_z l ^ "," ^ string_of_n t
        | Dec.DetPanic -> "panic") in
      incr cases;
      let idet = S.sub det 4 (S.length det - 4) in
      if idet = "panic" then fail "propfail" id "no_panic DetectPacket panicked input=%s" hex
      else begin
        (* clause detect_view: what Decoder.Read makes of the answer (positive length and type, or
           "need more") is Stream.detect_impl, the arithmetic statement of DetectPacket *)
        let view = (match S.split_on_char ',' idet with
          | [l; t] -> let z = Z.of_string l in
            if Z.gt z Z.zero then l ^ "," ^ t else "needmore"
          | _ -> "bad") in
        let want = s_of_detection (Stream.detect_impl input) in
        if view <> want then fail "propfail" id "detect_view impl=%s spec=%s input=%s" idet want hex
      end;
      if idet <> "panic" && mdet <> idet then begin
        (* detect_agrees: for a valid type nibble and a varint of at most 4 bytes the reported length is the extent *)
        let tn = (match input with b :: _ -> int_of_byte b lsr 4 | [] -> 0) in
        (match ext with
         | Some n when tn >= 1 && tn <= 14 && idet <> Printf.sprintf "%d,%d" n tn ->
           fail "propfail" id "detect_agrees impl=%s extent=%d input=%s" idet n hex
         | _ -> fail "diff" id "detect model=%s impl=%s input=%s" mdet idet hex)
      end;
      (* decodes *)
      let framed : (int, res * bool) Hashtbl.t = Hashtbl.create 4 in
      let results = L.map (fun tok ->
        match S.split_on_char '/' tok with
        | "s" :: lim :: tail :: r1 :: r2 ->
          (* clause stream_read: packet.Decoder.Read on input ++ tail returns what ReadSpec.read_spec says
             (packet iff the reference decoder accepts the frame the header declares, else the right error),
             and the Read after a packet continues exactly behind it *)
          let lim = int_of_string lim in
          let bs = input @ bytes_of_hex tail in
          let r2 = S.concat "/" r2 in
          incr cases;
          let (w1, rest) = spec_read lim bs in
          if r1 = "panic" || r2 = "panic" then
            fail "propfail" id "no_panic Decoder.Read limit=%d stream=%s" lim (hex_of_bytes bs)
          else if r1 <> w1 then
            fail "propfail" id "stream_read limit=%d first impl=%s spec=%s stream=%s" lim r1 w1 (hex_of_bytes bs)
          else (match rest with
            | Some rest ->
              let (w2, _) = spec_read lim rest in
              if r2 <> w2 then
                fail "propfail" id "stream_read limit=%d next impl=%s spec=%s stream=%s" lim r2 w2 (hex_of_bytes bs)
            | None -> ());
          ("s", 0, [], Panic)
        | v :: ty :: tail :: rest ->
          let t = int_of_string ty in
          let pt = ptype_of_int t in
          let buf = (match v with
            | "r" -> input
            | "f" -> (match ext with Some n -> take n input | None -> failwith "f without extent")
            | _ -> (match ext with Some n -> take n input @ bytes_of_hex tail | None -> failwith "t without extent")) in
          let blen = L.length buf in
          let impl = (match rest with
            | "ok" :: n :: p -> Ok (int_of_string n, S.concat "/" p)
            | ["err"; n] -> Err (int_of_string n)
            | ["panic"] -> Panic
            | _ -> failwith ("bad obs " ^ tok)) in
          incr cases;
          let bhex = hex_of_bytes buf in
          let key = ty ^ bhex in
          if ext <> None && not (Hashtbl.mem seen key) then (Hashtbl.replace seen key (); incr distinct);
          let m = model_res pt buf in
          let r = ref_res pt buf in
          (* clause no_panic *)
          if impl = Panic then fail "propfail" id "no_panic type=%d buf=%s" t bhex
          else begin
            (* clause consumed *)
            (match impl with
             | Ok (n, _) | Err n when n > blen || n < 0 -> fail "propfail" id "consumed type=%d n=%d len=%d buf=%s" t n blen bhex
             | _ -> ());
            (* clause forwardable, on the packet the implementation returned *)
            (match impl with
             | Ok (_, p) when (t = 3 || t = 1) ->
               (try L.iter (fun m -> if not (forward_ok m) then
                   fail "propfail" id "forwardable type=%d impl=%s buf=%s" t p bhex) (admitted_messages (packet_of_s p))
                with Failure _ -> ())
             | _ -> ());
            (* clause spec_equiv: accept iff the reference accepts, same fields, same count.
               CONNECT only on buffers framed to the declared extent *)
            let framed_buf = (match RefDecode.extent buf with Some n -> int_of_n n = blen | None -> true) in
            if t <> 1 || framed_buf then begin
              match impl, r with
              | Ok (n, p), Some (n', p') when n = n' && p = p' -> ()
              | Err _, None -> ()
              | Ok (n, p), Some (n', p') -> fail "propfail" id "spec_equiv type=%d impl=ok/%d/%s ref=ok/%d/%s buf=%s" t n p n' p' bhex
              | Ok (n, p), None -> fail "propfail" id "spec_equiv type=%d impl=ok/%d/%s ref=reject buf=%s" t n p bhex
              | Err n, Some (n', p') -> fail "propfail" id "spec_equiv type=%d impl=err/%d ref=ok/%d/%s buf=%s" t n n' p' bhex
              | Panic, _ -> ()
            end;
            (* the tie itself *)
            if m <> impl then fail "diff" id "decode type=%d model=%s impl=%s buf=%s" t (s_of_res m) (s_of_res impl) bhex
          end;
          (v, t, buf, impl)
        | _ -> failwith ("bad obs " ^ tok)) obs in
      (* clause local: for every type, all buffers that consist of the framed packet plus any tail
         give the implementation the same result and count (reference: the framed observation when
         the plan has one, else the first extended one) *)
      (match ext with
       | Some n when n <= ilen ->
         let fr = take n input in
         L.iter (fun (v, t, buf, impl) ->
           if L.length buf = n && take n buf = fr then Hashtbl.replace framed t (impl, true)) results;
         L.iter (fun (v, t, buf, impl) ->
           if L.length buf > n && take n buf = fr then
             match Hashtbl.find_opt framed t with
             | Some (f, is_framed) when f <> impl && impl <> Panic && f <> Panic ->
               let what = if is_framed then "framed" else "other-tail" in
               if t = 1 then
                 fail "propfail" id "local_connect type=1 %s=%s embedded=%s buf=%s" what (s_of_res f) (s_of_res impl) (hex_of_bytes buf)
               else
                 fail "propfail" id "local type=%d %s=%s embedded=%s buf=%s" t what (s_of_res f) (s_of_res impl) (hex_of_bytes buf)
             | Some _ -> ()
             | None -> Hashtbl.replace framed t (impl, false))
           results
       | _ -> ());
      ignore gen
    | "x3" :: pre :: toks ->
      let b01 = bytes_of_hex pre in
      L.iteri (fun b2 tok ->
        let input = b01 @ [byte_of_int b2] in
        let t = (match b01 with b :: _ -> int_of_byte b lsr 4 | [] -> 0) in
        let t = if t >= 1 && t <= 14 then t else 1 in
        let pt = ptype_of_int t in
        incr cases;
        let m = (match Dec.decode_go pt input with
          | Dec.DOk (p, n) -> Printf.sprintf "o%d" (int_of_n n)
          | Dec.DErr n -> Printf.sprintf "e%d" (int_of_n n)
          | Dec.DPanic -> "p0") in
        let d = (match Dec.detect_go input with Dec.Detected (l, _) -> string_of_z l | Dec.DetPanic -> "panic") in
        let r = (match RefDecode.ref_decode pt input with Some (_, n) -> Printf.sprintf "o%d" (int_of_n n) | None -> "e") in
        let id = pre ^ Printf.sprintf "%02x" b2 in
        (match S.split_on_char ',' tok with
         | [k; dl] ->
           if k.[0] = 'p' then fail "propfail" id "no_panic x3 type=%d" t
           else begin
             if (k.[0] = 'o') <> (r.[0] = 'o') || (k.[0] = 'o' && k <> r) then
               fail "propfail" id "spec_equiv x3 type=%d impl=%s ref=%s" t k r;
             if k <> m then fail "diff" id "decode x3 type=%d model=%s impl=%s" t m k
           end;
           if dl <> d then fail "diff" id "detect x3 model=%s impl=%s" d dl
         | _ -> failwith "bad x3 token")) toks
    | _ -> ()
  done with End_of_file -> close_in ic);
  Printf.printf "done cases=%d diffs=%d distinct=%d\n" !cases !bad !distinct

let () = register "c02" run
