(* drv_service.ml — C17: runs the extracted service monitor (Client/Service.v) over the
   event traces observed on the real client.Service (go/cmd/service), and the extracted
   predicates of Client/ServiceSpec.v over the peers' view.

   scn <k> name=… cap=<c> clean=<b> mon=<b>
   ev <k> startcall | startret b | stopcall b | stopret b | cmdcall n body | cmdret n | qtimeout n
        | backoff | next | connfail r | online b | resubfail r | send conn id body ok | disperr kind
        | disconnect | offline | ack id | ackrej id | kill | fut n completed|cancelled
        | (ignored: dial, sendconnect, recverr, close, resend)
   peer <k> conn id body     futfinal <k> n st     end <k>

   output: diff <k> …      the monitor does not accept the trace (event not enabled)
           propfail <k> resub_set|fifo|futures|stop …   the observation violates the clause *)
open Conv
module L = Stdlib.List
module S = Stdlib.String
open Service
open BinNums

let sub_of_s x = match split ',' x with
  | [t; q] -> (bytes_of_hex t, n_of_string q)
  | _ -> failwith ("bad sub " ^ x)
let body_of_s (s : string) : body =
  let i = S.index s ':' in
  let k = S.sub s 0 i and r = S.sub s (i + 1) (S.length s - i - 1) in
  match k with
  | "sub" -> BSub (if r = "" then [] else L.map sub_of_s (split ';' r))
  | "unsub" -> BUnsub (if r = "" then [] else L.map bytes_of_hex (split ',' r))
  | "pub" -> BPub (msg_of_s r)
  | _ -> failwith ("bad body " ^ s)
let s_of_sub (t, q) = hex_of_bytes t ^ "," ^ string_of_n q
let s_of_subs l = S.concat ";" (L.map s_of_sub l)
let s_of_body = function
  | BSub l -> "sub:" ^ s_of_subs l
  | BUnsub l -> "unsub:" ^ S.concat "," (L.map hex_of_bytes l)
  | BPub m -> "pub:" ^ s_of_msg m

let cfail_of_s = function "cancelled" -> CCancelled | "timeout" -> CTimeout | _ -> CErr
let kind_of_s = function "sub" -> KSub | "unsub" -> KUnsub | _ -> KPub
let sup_name = function
  | SIdle -> "Idle" | STop true -> "TopFirst" | STop false -> "Top" | SBackoff -> "Backoff"
  | SConnecting -> "Connecting" | SResubCall -> "ResubCall" | SResubFailing -> "ResubFailing"
  | SResubWait _ -> "ResubWait" | SResubCancelled -> "ResubCancelled" | SDispatch -> "Dispatch"
  | SDispFailing _ -> "DispFailing" | SClosing true -> "ClosingDying" | SClosing false -> "Closing"
  | SEnded -> "Ended"
let api_name = function
  | ANone -> "-" | AStart _ -> "Start" | AStop _ -> "Stop" | ACmd (_, _, true) -> "CmdBlocked" | ACmd _ -> "Cmd"
let ev_name = function
  | EStartCall -> "StartCall" | EStartRet b -> "StartRet" ^ s_of_bool b
  | EStopCall b -> "StopCall" ^ s_of_bool b | EStopRet b -> "StopRet" ^ s_of_bool b
  | ECmdCall b -> (match b with BSub _ -> "CmdSub" | BUnsub _ -> "CmdUnsub" | BPub _ -> "CmdPub")
  | ECmdRet -> "CmdRet" | EQueueTimeout -> "QueueTimeout" | EBackoff -> "Backoff" | ENext -> "Next"
  | ESupExit -> "SupExit"
  | EConnFail r -> (match r with CErr -> "ConnErr" | CCancelled -> "ConnCancelled" | CTimeout -> "ConnTimeout")
  | EOnline b -> "Online" ^ s_of_bool b
  | EResubSend (_, _, ok) -> "ResubSend" ^ s_of_bool ok
  | EResubFail r -> (match r with CErr -> "ResubErr" | CCancelled -> "ResubCancelled" | CTimeout -> "ResubTimeout")
  | EDispSend (_, b, ok) -> (match b with BSub _ -> "SendSub" | BUnsub _ -> "SendUnsub"
                                        | BPub m -> "SendPub" ^ string_of_n m.Packet.m_qos) ^ s_of_bool ok
  | EDispErr _ -> "DispErr" | EDisconnect -> "Disconnect" | EOffline -> "Offline"
  | EAck _ -> "Ack" | EAckReject _ -> "AckReject" | EKill -> "Kill"
  | EFut (_, OCompleted) -> "FutCompleted" | EFut (_, OCancelled) -> "FutCancelled"
let s_of_fst = function
  | FPending -> "pending" | FCompleted _ -> "completed" | FCancelled _ -> "cancelled"
let cause_name = function
  | FCancelled CDispatchFail -> "dispatch-failed" | FCancelled CQueueTimeout -> "queue-timeout"
  | FCancelled CClientCancel -> "client-future-cancelled" | FCancelled CStopClear -> "stop-clear"
  | FCancelled CReplaced -> "replaced-in-store" | FCompleted id -> "ack-" ^ string_of_n id | FPending -> "pending"

type sc = {
  k : string; mutable name : string; mutable mon : bool;
  mutable st : state; mutable alive : bool; mutable nev : int;
  mutable issued_b : body list;                 (* bodies in cmdcall order (reversed) *)
  mutable resub_ids : (string * string) list;   (* (conn, id) of requests classified as resubscribes *)
  mutable conn : string;                        (* current connection *)
  mutable expect : (string * sub list) list;    (* per connection: the set a resubscribe has to carry *)
  mutable peers : (string * string * body) list;(* reversed *)
  mutable finals : (int * string) list;
  mutable stopcalls : int; mutable stoprets : int;
  mutable restart_pending : bool;               (* a Start after a Stop returned true; a `next` must follow *)
  mutable had_stop : bool;
  mutable next_seen : bool;                     (* a supervisor round began since the last Start call *)
  mutable late_cancel : (coq_N * string) list;  (* cancellations observed before the event that explains them was recorded *)
  mutable late_ret : string option;
  mutable life : ServiceSpec.lstate option;      (* trace scanners of ServiceSpec.v (None: already reported) *)
  mutable gate : ServiceSpec.gstate option;             (* return of a blocked API call observed before the dispatcher's next record *)
}

let run path =
  let scs : (string, sc) Hashtbl.t = Hashtbl.create 64 in
  let cases = ref 0 and diffs = ref 0 in
  let classes = Hashtbl.create 256 in
  let causes = Hashtbl.create 16 in
  let get k = Hashtbl.find scs k in
  let reject c what =
    if c.alive then begin
      c.alive <- false; incr diffs;
      Printf.printf "%s\n" what end in
  let rec feed c (line : string) (e : event) =
    (* once the monitor has left a trace, the lifecycle scanner still judges what follows (it needs no model state) *)
    if (not c.alive) && c.mon then begin
      match c.life with
      | Some l -> (match ServiceSpec.life_step l e with
          | Some l' -> c.life <- Some l'
          | None -> c.life <- None; incr diffs;
            Printf.printf "propfail %s lifecycle name=%s event#%d [%s] %s\n" c.k c.name c.nev line
              (match e with
               | EStartRet b -> "Start returned " ^ string_of_bool b ^ " contradicting the running state"
               | EStopRet b -> "Stop returned " ^ string_of_bool b ^ " contradicting the running state"
               | EStartCall | EStopCall _ -> "a Start/Stop call overlaps another one"
               | _ -> "supervisor activity (" ^ ev_name e ^ ") while no supervisor may exist: after Stop returned / before Start"))
      | None -> ()
    end;
    if c.alive && c.mon then begin
      Hashtbl.replace classes (sup_name c.st.sp ^ "/" ^ api_name c.st.ap ^ "/" ^ ev_name e) ();
      (* the trace scanners judge the observed event sequence by itself, whatever the monitor's state *)
      let scanner_said = ref false in
      (match c.life with
       | Some l -> (match ServiceSpec.life_step l e with
           | Some l' -> c.life <- Some l'
           | None -> c.life <- None; scanner_said := true; incr diffs;
             Printf.printf "propfail %s lifecycle name=%s event#%d [%s] %s\n" c.k c.name c.nev line
               (match e with
                | EStartRet b -> "Start returned " ^ string_of_bool b ^ (if l.ServiceSpec.l_run then " although a supervisor is running or being stopped" else " although no supervisor is running")
                | EStopRet b -> "Stop returned " ^ string_of_bool b ^ " contradicting the running state"
                | EStartCall | EStopCall _ -> "a Start/Stop call overlaps another one"
                | _ -> "supervisor activity (" ^ ev_name e ^ ") while no supervisor may exist: after Stop returned / before Start"))
       | None -> ());
      (match c.gate with
       | Some g -> (match ServiceSpec.gate_step g e with
           | Some g' -> c.gate <- Some g'
           | None -> c.gate <- None; scanner_said := true; incr diffs;
             Printf.printf "propfail %s fifo name=%s event#%d [%s] a command is handed to the client although no dispatcher may run: %s\n" c.k c.name c.nev line
               (match g with
                | ServiceSpec.G0 -> "no connection is online"
                | ServiceSpec.G2 id -> "the resubscribe request " ^ string_of_n id ^ " has not been acknowledged"
                | ServiceSpec.G4 -> "the previous command's send failed"
                | _ -> "the dispatcher on this connection is over (failed dispatch or Disconnect)"))
       | None -> ());
      if !scanner_said then c.alive <- false else
      match step c.st e, e with
      | Some s', _ ->
        c.st <- s';
        (* observations that commute with the record just consumed (see below) are retried *)
        (match e with
         | EFut _ -> ()
         | _ ->
           let lc = c.late_cancel in
           c.late_cancel <- [];
           L.iter (fun (n, l) -> match step c.st (EFut (n, OCancelled)) with
                     | Some _ -> ()
                     | None -> c.late_cancel <- (n, l) :: c.late_cancel) (L.rev lc);
           (match e, c.late_ret with
            | (EDispSend _ | EDispErr _), Some l -> c.late_ret <- None; feed c (l ^ " (deferred)") ECmdRet
            | _ -> ()))
      (* future.Store.Put cancels the future it replaces BEFORE the request reaches the connection, where it is
         recorded: a watcher may report that cancellation first.  Kept until a later record explains it; if none
         does, it is reported at the end of the scenario. *)
      | None, EFut (n, OCancelled) when fut_get n c.st.futs = Some FPending ->
        c.late_cancel <- (n, line) :: c.late_cancel
      (* a caller blocked on the full queue returns as soon as the dispatcher has taken a command; the dispatcher's
         request is recorded a moment later: the return is kept until that record *)
      | None, ECmdRet when c.st.sp = SDispatch && (match c.st.ap with ACmd (_, _, true) -> c.late_ret = None | _ -> false) ->
        c.late_ret <- Some line
      | None, _ ->
        (* classification of a disabled event: does it contradict a clause by itself? *)
        let clause = match e with
          | EResubSend (_, l, _) -> Some ("resub_set", "request=" ^ s_of_subs l ^ " expected=" ^ s_of_subs (resub_list c.st.subs))
          | EDispSend (_, b, _) when c.st.sp = SDispatch ->
            (match c.st.queue with
             | (_, hd) :: _ when not (body_eqb b hd) && L.exists (fun (_, x) -> body_eqb b x) c.st.queue ->
               Some ("fifo", "sent=" ^ s_of_body b ^ " but the head of the queue is " ^ s_of_body hd)
             | _ when L.exists (fun (_, x) -> body_eqb b x) c.st.dispatched ->
               Some ("fifo", "sent=" ^ s_of_body b ^ " is not the next queued command, it equals a command that was taken from the queue before (" ^
                             (match c.st.queue with (_, hd) :: _ -> "head of the queue: " ^ s_of_body hd | [] -> "queue empty") ^ ")")
             | _ -> None)
          | EFut (n, _) ->
            (match fut_get n c.st.futs with
             | Some st -> Some ("futures", "future " ^ string_of_n n ^ " observed " ^ ev_name e ^ " while the model has it " ^ cause_name st)
             | None -> None)
          (* the connection came online with a non-empty set and the supervisor went on without a resubscribe request *)
          | _ when c.st.sp = SResubCall && ServiceSpec.is_sup_event e ->
            Some ("resub_set", "the connection is online, the subscription set is " ^ s_of_subs (resub_list c.st.subs) ^
                               ", but the supervisor went on (" ^ ev_name e ^ ") without a resubscribe request")
          (* the bounded queue: a caller returns un-cancelled only once its command is in the queue, and gives up
             (QueueTimeout) only while the queue is full *)
          (* Stop returned although the supervisor has not ended *)
          | EStopRet true when (match c.st.ap with AStop (_, true) -> true | _ -> false) ->
            Some ("stop", "Stop returned while the supervisor had not ended (the model has it at " ^ sup_name c.st.sp ^ ")")
          | ECmdRet when (match c.st.ap with ACmd (_, _, true) -> true | _ -> false) ->
            Some ("queue", Printf.sprintf "the call returned with its future pending although the queue (capacity %s) was full and the dispatcher took nothing" (string_of_n c.st.cap))
          | EQueueTimeout when (match c.st.ap with ACmd (_, _, false) -> true | _ -> false) ->
            Some ("queue", Printf.sprintf "the caller gave up (QueueTimeout) although the queue (capacity %s) had room: %d queued" (string_of_n c.st.cap) (L.length c.st.queue))
          | _ -> None in
        (match clause with
         | Some (cl, txt) -> reject c (Printf.sprintf "propfail %s %s name=%s event#%d [%s] %s" c.k cl c.name c.nev line txt)
         | None -> reject c (Printf.sprintf "diff %s name=%s event#%d [%s] not enabled at sp=%s api=%s dying=%b kill=%b queue=%d"
                               c.k c.name c.nev line (sup_name c.st.sp) (api_name c.st.ap) c.st.dying c.st.kill (L.length c.st.queue)))
    end in
  L.iter (fun line -> match words line with
    | "scn" :: k :: rest ->
      let c = { k; name = "?"; mon = true; st = init (n_of_int 64); alive = true; nev = 0; issued_b = [];
                resub_ids = []; conn = "0"; expect = []; peers = []; finals = []; stopcalls = 0; stoprets = 0;
                restart_pending = false; had_stop = false; next_seen = false; late_cancel = []; late_ret = None;
                life = Some { ServiceSpec.l_run = false; l_call = None }; gate = Some ServiceSpec.G0 } in
      L.iter (fun w -> match split '=' w with
        | ["name"; v] -> c.name <- v
        | ["cap"; v] -> c.st <- init (n_of_string v)
        | ["mon"; v] -> c.mon <- bool_of_s v
        | _ -> ()) rest;
      Hashtbl.replace scs k c
    | "ev" :: k :: w ->
      let c = get k in
      c.nev <- c.nev + 1;
      let l = S.concat " " w in
      (match w with
       | ["startcall"] -> c.next_seen <- false; feed c l EStartCall
       | ["startret"; b] ->
         if bool_of_s b && c.had_stop && not c.next_seen then c.restart_pending <- true;
         feed c l (EStartRet (bool_of_s b))
       | ["stopcall"; b] -> c.stopcalls <- c.stopcalls + 1; feed c l (EStopCall (bool_of_s b))
       | ["stopret"; b] ->
         c.stoprets <- c.stoprets + 1;
         if bool_of_s b then c.had_stop <- true;
         (* the supervisor leaves its backoff sleep silently when the tomb is dying *)
         if bool_of_s b && c.st.sp = SBackoff then feed c (l ^ " (supervisor exit)") ESupExit;
         feed c l (EStopRet (bool_of_s b))
       | ["cmdcall"; n; b] ->
         let bd = body_of_s b in
         c.issued_b <- bd :: c.issued_b;
         if c.mon && c.alive && string_of_n c.st.nextn <> n then
           reject c (Printf.sprintf "diff %s name=%s event#%d [%s] future number: model %s" c.k c.name c.nev l (string_of_n c.st.nextn));
         feed c l (ECmdCall bd)
       | ["cmdret"; _] -> feed c l ECmdRet
       | ["qtimeout"; _] -> feed c l EQueueTimeout
       | ["backoff"] -> feed c l EBackoff
       | ["next"] -> c.restart_pending <- false; c.next_seen <- true; feed c l ENext
       | ["connfail"; r] -> feed c l (EConnFail (cfail_of_s r))
       | ["online"; b] ->
         if c.mon && c.alive then
           c.expect <- (c.conn, ServiceSpec.spec_resub (L.map snd c.st.dispatched)) :: c.expect;
         feed c l (EOnline (bool_of_s b))
       | ["resubfail"; r] -> feed c l (EResubFail (cfail_of_s r))
       | ["send"; conn; id; b; ok] ->
         let bd = body_of_s b in
         (match bd, c.st.sp with
          | BSub subs, SResubCall when c.mon && c.alive ->
            c.resub_ids <- (conn, id) :: c.resub_ids;
            feed c l (EResubSend (n_of_string id, subs, bool_of_s ok))
          | _ -> feed c l (EDispSend (n_of_string id, bd, bool_of_s ok)))
       | ["disperr"; kd] -> feed c l (EDispErr (kind_of_s kd))
       | ["disconnect"] -> feed c l EDisconnect
       | ["offline"] -> feed c l EOffline
       | ["ack"; id] -> feed c l (EAck (n_of_string id))
       | ["ackrej"; id] -> feed c l (EAckReject (n_of_string id))
       | ["kill"] -> feed c l EKill
       | ["fut"; n; st] -> feed c l (EFut (n_of_string n, if st = "completed" then OCompleted else OCancelled))
       | "dial" :: conn :: _ -> c.conn <- conn
       | _ -> ())
    | "peer" :: k :: conn :: id :: b :: _ -> let c = get k in c.peers <- (conn, id, body_of_s b) :: c.peers
    | "futfinal" :: k :: n :: st :: _ -> let c = get k in c.finals <- (int_of_string n, st) :: c.finals
    | "end" :: k :: _ ->
      let c = get k in
      incr cases;
      if c.mon then begin
        let fail cl txt = incr diffs; Printf.printf "propfail %s %s name=%s %s\n" c.k cl c.name txt in
        (* connections are sequential; the peers' goroutines record concurrently: order by connection, then arrival *)
        let peers = L.stable_sort (fun (a, _, _) (b, _, _) -> compare (int_of_string a) (int_of_string b)) (L.rev c.peers) in
        (* resub_set: the first request on every connection that came online with a non-empty set *)
        L.iter (fun (conn, exp) ->
          if exp <> [] then
            match L.filter (fun (cn, _, _) -> cn = conn) peers with
            | (_, _, b) :: _ ->
              (match b with
               | BSub l when ServiceSpec.resub_ok [BSub exp] l || l = exp -> ()
               | _ -> fail "resub_set" (Printf.sprintf "connection %s: first request %s, the subscription set is %s"
                                          conn (s_of_body b) (s_of_subs exp)))
            | [] -> ()) c.expect;
        (* fifo: command requests seen by the peers, across connections, are in issue order *)
        let seen = L.filter_map (fun (cn, id, b) -> if L.mem (cn, id) c.resub_ids then None else Some b) peers in
        if c.alive && not (ServiceSpec.fifo_ok seen (L.rev c.issued_b)) then
          fail "fifo" ("requests seen by the peers are not in issue order: " ^ S.concat " " (L.map s_of_body seen));
        (* futures: every watcher's final observation is the model's status *)
        L.iter (fun (n, l) -> if c.alive then
                   fail "futures" (Printf.sprintf "[%s] observed, but the model never cancels future %s (it has it %s)" l (string_of_n n)
                                     (match fut_get n c.st.futs with Some m -> cause_name m | None -> "?"))) c.late_cancel;
        if c.alive && c.late_ret <> None then
          fail "queue" (Printf.sprintf "a call returned with its future pending although the queue (capacity %s) was full and the dispatcher never took a command" (string_of_n c.st.cap));
        if c.alive then
          L.iter (fun (n, st) ->
            match fut_get (n_of_int n) c.st.futs with
            | Some m ->
              Hashtbl.replace causes (cause_name (match m with FCompleted _ -> FCompleted N0 | x -> x)) ();
              if s_of_fst m <> st then
                fail "futures" (Printf.sprintf "future %d ended %s, the model has it %s" n st (cause_name m))
            | None -> fail "futures" (Printf.sprintf "future %d unknown to the model" n)) c.finals;
        (* stop: Stop returned; after the final Stop(true) nothing is pending; a restart ran *)
        if c.stoprets <> c.stopcalls then fail "stop" "a Stop call did not return";
        L.iter (fun (n, st) -> if st = "pending" then
                   fail "stop" (Printf.sprintf "future %d still pending after Stop(true) returned" n)) c.finals;
        if c.restart_pending then fail "stop" "Start after Stop returned true but no supervisor round followed";
        if c.alive && c.st.sp <> SIdle then
          fail "stop" ("after the final Stop the model supervisor is at " ^ sup_name c.st.sp)
      end
    | _ -> ()) (read_lines path);
  Hashtbl.iter (fun k () -> Printf.printf "class %s\n" k) classes;
  Hashtbl.iter (fun k () -> Printf.printf "cause %s\n" k) causes;
  Printf.printf "done cases=%d diffs=%d distinct=%d\n" !cases !diffs (Hashtbl.length classes)

let () = register "c17" run
