(* drv_backend.ml — replays the harness' operations on the MemoryBackend model
   (Broker/Backend.v) from the implementation's previous state and compares result and
   state after every step (`diff`), and evaluates the boolean specification clauses of
   Broker/BackendSpec.v on the IMPLEMENTATION's observations (`propfail`).
   Exchange format: see go/cmd/backend/main.go. *)
open Conv
open BinNums
open Packet
open Backend
module L = Stdlib.List
module S = Stdlib.String

let n_of_s = n_of_string
let s_of_n = string_of_n

(* ---------------------------------------------------------------- parsing *)
let msgs_of_s s = if s = "." then [] else L.map msg_of_s (split '|' s)
let subs_of_s s = if s = "." then [] else
    L.map (fun x -> match split ',' x with [t; q] -> (bytes_of_hex t, n_of_s q) | _ -> failwith ("bad sub " ^ x)) (split ';' s)
let conn_opt_of_s s = if s = "-" then None else Some (n_of_s s)

let session_of_fields act subs tq sq =
  { s_subs = subs_of_s subs; s_tq = msgs_of_s tq; s_sq = msgs_of_s sq; s_act = conn_opt_of_s act }

let state_of_snap (cap : coq_N) (toks : string list) : state =
  let st = ref { (init cap) with st_cap = cap } in
  L.iter (fun tok ->
    let s = !st in
    match split ':' tok with
    | [c] when S.length c > 8 && S.sub c 0 8 = "closing=" -> st := { s with st_closing = (c = "closing=1") }
    | ["S"; id; act; subs; tq; sq] ->
      st := { s with st_stored = s.st_stored @ [(bytes_of_hex id, session_of_fields act subs tq sq)] }
    | ["T"; c; act; subs; tq; sq] ->
      st := { s with st_temps = s.st_temps @ [(n_of_s c, session_of_fields act subs tq sq)] }
    | ["A"; id; c] -> st := { s with st_active = s.st_active @ [(bytes_of_hex id, n_of_s c)] }
    | ["R"; m] -> let m = msg_of_s m in st := { s with st_retained = s.st_retained @ [(m.m_topic, m)] }
    | ["C"; c; id; key; dying; closed; term] ->
      let c = n_of_s c in
      let sess = if key = "nil" then s.st_sess
        else if key = "T" then s.st_sess @ [(c, KTemp c)]
        else if key = "orphan" then s.st_sess @ [(c, KStored (bytes_of_hex "6f727068616e21"))]
        else s.st_sess @ [(c, KStored (bytes_of_hex (S.sub key 1 (S.length key - 1))))] in
      st := { s with st_sess = sess; st_cid = s.st_cid @ [(c, bytes_of_hex id)];
                     st_dying = (if dying = "1" then s.st_dying @ [c] else s.st_dying);
                     st_closed = (if closed = "1" then s.st_closed @ [c] else s.st_closed);
                     st_term = (if term = "1" then s.st_term @ [c] else s.st_term) }
    | ["P"; c; id; clean; old] ->
      st := { s with st_pending = Some { p_conn = n_of_s c; p_id = bytes_of_hex id; p_clean = (clean = "1"); p_old = n_of_s old } }
    | _ -> failwith ("bad snapshot token " ^ tok)) toks;
  !st

(* ---------------------------------------------------------------- canonical text of a state *)
let s_of_msgs ms = if ms = [] then "." else S.concat "|" (L.map s_of_msg ms)
let s_of_subs subs =
  if subs = [] then "." else
    S.concat ";" (L.sort compare (L.map (fun (f, q) -> hex_of_bytes f ^ "," ^ s_of_n q) subs))
let s_of_conn_opt = function None -> "-" | Some c -> s_of_n c
let s_of_session s = S.concat ":" [s_of_conn_opt s.s_act; s_of_subs s.s_subs; s_of_msgs s.s_tq; s_of_msgs s.s_sq]
let s_of_key = function KTemp c -> "T" ^ s_of_n c | KStored id -> "S" ^ hex_of_bytes id
let sorted l = L.sort compare l
let nsorted (l : coq_N list) = L.map string_of_int (L.sort_uniq compare (L.map int_of_n l))

let canon (st : state) : string =
  S.concat " " (L.concat [
    ["closing=" ^ s_of_bool st.st_closing];
    sorted (L.map (fun (id, s) -> "S:" ^ hex_of_bytes id ^ ":" ^ s_of_session s) st.st_stored);
    sorted (L.map (fun (c, s) -> "T:" ^ s_of_n c ^ ":" ^ s_of_session s) st.st_temps);
    sorted (L.map (fun (id, c) -> "A:" ^ hex_of_bytes id ^ ":" ^ s_of_n c) st.st_active);
    sorted (L.map (fun (_, m) -> "R:" ^ s_of_msg m) st.st_retained);
    sorted (L.map (fun (c, k) -> "sess:" ^ s_of_n c ^ "=" ^ s_of_key k) st.st_sess);
    sorted (L.map (fun (c, id) -> "cid:" ^ s_of_n c ^ "=" ^ hex_of_bytes id) st.st_cid);
    ["dying=" ^ S.concat "," (nsorted st.st_dying)];
    ["closed=" ^ S.concat "," (nsorted st.st_closed)];
    ["term=" ^ S.concat "," (nsorted st.st_term)];
    [match st.st_pending with None -> "P:-"
                            | Some p -> "P:" ^ S.concat ":" [s_of_n p.p_conn; hex_of_bytes p.p_id; s_of_bool p.p_clean; s_of_n p.p_old]]])

let s_of_result = function
  | RSetup b -> "setup:" ^ s_of_bool b
  | RSetupWait c -> "wait:" ^ s_of_n c
  | RErrClosing -> "errclosing" | RErrKillTimeout -> "errkilltimeout"
  | ROk -> "ok" | RQueueFull -> "queuefull" | RBlocked -> "blocked"
  | RMsg m -> "msg:" ^ s_of_msg m
  | REmpty -> "empty" | RNoSession -> "nosession" | RMisuse -> "misuse" | RBadOracle -> "badoracle"
  | RNotEnabled -> "notenabled"

let result_of_s (s : string) : result option =
  match split ':' s with
  | ["setup"; b] -> Some (RSetup (b = "1"))
  | ["wait"; c] -> Some (RSetupWait (n_of_s c))
  | ["errclosing"] -> Some RErrClosing | ["errkilltimeout"] -> Some RErrKillTimeout
  | ["ok"] -> Some ROk | ["queuefull"] -> Some RQueueFull | ["blocked"] -> Some RBlocked
  | ["msg"; m] -> Some (RMsg (msg_of_s m))
  | ["lost"] -> Some REmpty   (* Dequeue consumed the queued messages and returned none: as if the queue were empty *)
  | _ -> None

(* ---------------------------------------------------------------- oracles from the implementation's next state *)
let sessions (st : state) : (skey * session) list =
  L.map (fun (c, s) -> (KTemp c, s)) st.st_temps @ L.map (fun (id, s) -> (KStored id, s)) st.st_stored

let rec drop n l = if n <= 0 then l else match l with [] -> [] | _ :: t -> drop (n - 1) t
let rec take n l = if n <= 0 then [] else match l with [] -> [] | x :: t -> x :: take (n - 1) t
let rec remove_one m = function
  | [] -> []
  | x :: t -> if message_eqb m x then t else x :: remove_one m t

(* the order in which Search listed each filter's matches, read off the temporary queue *)
let batches_oracle (prev : state) (next : state option) (c : coq_N) (subs : sub list) : message list list =
  let expected = L.map (fun (f, _) -> search_retained prev f) subs in
  match next, session_of prev c with
  | Some nx, Some (k, s) ->
    (match get_session nx k with
     | Some s' ->
       let x = ref (drop (L.length s.s_tq) s'.s_tq) in
       L.map (fun e ->
           let n = L.length e in
           let g = take n !x in
           x := drop n !x;
           if L.length g = n then g else g @ L.fold_left (fun rest m -> remove_one m rest) e g) expected
     | None -> expected)
  | _ -> expected

let got_oracle (prev : state) (next : state option) (m : message) : skey list =
  match next with
  | None -> []
  | Some nx ->
    L.concat (L.map (fun (k, s) ->
        match get_session nx k with
        | Some s' -> if L.length (queue_of m s') > L.length (queue_of m s) then [k] else []
        | None -> []) (sessions prev))

let contains (s : string) (sub : string) : bool =
  let n = S.length s and m = S.length sub in
  let rec go i = i + m <= n && (S.sub s i m = sub || go (i + 1)) in go 0

(* ---------------------------------------------------------------- main loop *)
let run path =
  let cases = ref 0 and diffs = ref 0 and propfails = ref 0 in
  let seen = Hashtbl.create 4096 in
  let distinct = ref 0 in
  let hist = ref "0" and cap = ref (n_of_int 2) in
  let cur = ref (init (n_of_int 2)) in
  let pend_op : (string * string list) option ref = ref None in
  let kt_seen = ref false in
  let pend_res = ref "" in
  let handle (k : string) (args : string list) (res : string) (snap : string list option) =
    incr cases;
    let prev = !cur in
    let next = match snap with Some toks -> Some (state_of_snap !cap toks) | None -> None in
    let conn s = n_of_s s in
    let op = match args with
      | "setup" :: c :: id :: clean :: _ -> OSetup (conn c, bytes_of_hex id, clean = "1")
      | ["setupend"; t] -> OSetupEnd (t = "1")
      | ["closed"; c] -> OMarkClosed (conn c)
      | ["sub"; c; subs] -> let subs = subs_of_s subs in OSubscribe (conn c, subs, batches_oracle prev next (conn c) subs)
      | ["unsub"; c; fs] -> OUnsubscribe (conn c, L.map bytes_of_hex (split ';' fs))
      | ["pub"; c; m] | ["resume"; c; m] | ["ackpub"; c; m] -> let m = msg_of_s m in OPublish (conn c, m, got_oracle prev next m)
      | ["deq"; c; q] -> ODequeue (conn c, q = "t")
      | ["term"; c] -> OTerminate (conn c)
      | ["close"] -> OClose
      | _ -> failwith ("bad case " ^ S.concat " " args) in
    
    let (r, st') = step prev op in
    let mres = s_of_result r in
    let label = !hist ^ "/" ^ k in
    let bad = ref false in
    if mres <> res then begin
      bad := true;
      Printf.printf "diff %s result op=%s model=%s impl=%s\n" label (S.concat " " args) mres res end;
    (match next with
     | Some nx ->
       let a = canon st' and b = canon nx in
       if a <> b then begin
         bad := true;
         Printf.printf "diff %s state op=%s\n  model: %s\n  impl:  %s\n" label (S.concat " " args) a b end
     | None -> ());
    if !bad then incr diffs;
    (* specification clauses on the implementation's own observations *)
    (* a call that has not returned has changed nothing that can be observed: judge it against the unchanged state *)
    let judged = match next with Some nx -> Some nx | None -> if res = "blocked" then Some prev else None in
    (match judged, result_of_s res with
     | Some nx, Some ires ->
       (* a Publish issued from the acknowledgement of an Unsubscribe: a delivery on account of a removed
          filter is a violation of the unsubscribe clause *)
       let ack = (match args with "ackpub" :: _ -> true | _ -> false) in
       L.iter (fun (name, ok) ->
           let name = if ack && name = "targets" then "unsub" else name in
           if not ok then begin
             incr propfails;
             (* for a Dequeue: what left the session's queues without being handed out *)
             let lost = match name, op with
               | "delivery", ODequeue (c, _) ->
                 (match session_of prev c with
                  | Some (k, s) ->
                    let after = (match get_session nx k with Some s' -> s'.s_tq @ s'.s_sq | None -> []) in
                    let gone = L.fold_left (fun rest m -> remove_one m rest) (s.s_tq @ s.s_sq) after in
                    let gone = (match ires with
                        | RMsg m' -> (match L.partition (fun m -> m.m_topic = m'.m_topic && m.m_payload = m'.m_payload) gone with
                            | (_ :: dup, others) -> dup @ others | ([], others) -> others)
                        | _ -> gone) in
                    if gone = [] then "" else " lost=" ^ s_of_msgs gone
                  | None -> "")
               | _ -> "" in
             Printf.printf "propfail %s %s op=%s impl=%s%s\n" label name (S.concat " " args) res lost end)
         (Drv_backend_clauses.eval prev op ires nx)
     | _ -> ());
    (* continue from the implementation's state (the model's where no snapshot was possible) *)
    cur := (match next with Some nx -> nx | None -> st');
    (* class of the step: operation, result, number of sessions, and for a Publish what it did to the sessions
       (e enqueued, d dropped offline-full, s skipped closing-full, r own queue full, b blocked) and whether
       a receiver was closing *)
    let pubclass = match op with
      | OPublish (c, m, _) ->
        let letters = L.sort_uniq compare (L.map (fun (_, s) -> match classify prev c m s with
            | ANone -> "" | ADrop -> "d" | ASkip -> "s" | AEnq -> "e" | AErr -> "r" | ABlock -> "b") (sessions prev)) in
        let closing_rcv = L.exists (fun (_, s) -> match s.s_act, classify prev c m s with
            | Some c', (AEnq | ASkip) -> c' <> c && L.mem c' prev.st_dying | _ -> false) (sessions prev) in
        S.concat "" letters ^ (if closing_rcv then "+closing" else "") ^ (if m.m_retain then "+ret" else "")
      | _ -> "" in
    let key = (match args with a :: _ -> a | [] -> "") ^ "/" ^ (match split ':' res with a :: _ -> a | [] -> "") ^ "/" ^
              string_of_int (L.length (sessions prev)) ^ "/" ^ pubclass in
    if not (Hashtbl.mem seen key) then (Hashtbl.replace seen key (); incr distinct)
  in
  L.iter (fun line -> match words line with
      | ["hist"; h; c] -> hist := h; cap := n_of_s c; cur := init !cap; kt_seen := false
      | "case" :: k :: args -> pend_op := Some (k, args)
      | ["impl"; _; res] -> pend_res := res
      | "snap" :: _ :: toks ->
        (match !pend_op with
         | Some (k, args) ->
           (try handle k args !pend_res (if toks = ["none"] then None else Some toks)
            with Failure msg ->
              (* a harness that crashed in the middle of a line leaves a truncated last record *)
              incr diffs; Printf.printf "diff %s/%s unreadable record (%s): harness output truncated?\n" !hist k msg);
           pend_op := None
         | None -> ())
      | "hang" :: rest -> incr diffs; Printf.printf "diff %s hang %s\n" !hist (S.concat " " rest)
      | _ -> ()) (read_lines path);
  let closing = Hashtbl.fold (fun k () n -> if contains k "+closing" then n + 1 else n) seen 0 in
  Printf.printf "done cases=%d diffs=%d propfails=%d distinct=%d closingclasses=%d\n" !cases !diffs !propfails !distinct closing

let () = register "mb" run
