"""vcheck.py — shared machinery of bin/check (see DESIGN.md section 3.4).

Steps of every check:
  1. Coq: `make` the project (no-op when up to date), re-compile Props/<ID>.v and
     read its `Print Assumptions` output  -> obligations / discharged.
  2. Go harness built from /repo's current working tree with -tags verif.
  3. harness writes an exchange file; ocaml/modelrun (extracted model) reads it and
     prints `diff` / `propfail` lines;  harness `direct` lines are property
     evaluations on the implementation alone.
  4. classification, known findings, VIOLATION lines, evidence/<ID>.json.
"""
import fcntl
import hashlib
import json
import os
import re
import shutil
import subprocess
import sys
import time

VERIF = os.path.dirname(os.path.dirname(os.path.abspath(__file__)))
REPO = os.environ.get("VERIF_REPO", "/repo")
COQ = os.path.join(VERIF, "coq")
GOENV = dict(GOFLAGS="-mod=mod", GOPROXY="off", GOSUMDB="off", GOTOOLCHAIN="local",
             CGO_ENABLED=os.environ.get("CGO_ENABLED", "1"))
ALLOWED_AXIOMS = set()  # nothing beyond "Closed under the global context" is expected

TRUSTED_BASE = [
    "Coq 8.16.1 kernel incl. vm_compute (no native_compute); coqchk in the thorough tier",
    "no axioms: every property theorem prints 'Closed under the global context'",
    "extraction: ExtrOcamlBasic only (bool, option, unit, list, prod, sumbool, sumor -> OCaml natives); "
    "N/positive/Z/nat/byte stay extracted inductives; no Extract Constant/Inductive of our own",
    "hand-written OCaml driver ocaml/conv.ml + drv_*.ml (exchange-file parsing, printing)",
    "Go harness /verif/go (generators, recorders, fault injection, canonicalisation) and the verif-tagged hook files",
    "hand-written Gallina models tied to the code by the correspondence check only (assurance = min(theorem, tie))",
    "Go runtime, sync, channels, timers, bufio, bytes.Buffer, encoding/binary, mercury, tomb, net, websocket are modelled, not verified",
]


def refresh_coq_project():
    """_CoqProject lists every .v under coq/ except generated Tie files; the Makefile is
    regenerated when that list changes (call with the coq lock held)."""
    files = []
    for d, _, fs in os.walk(COQ):
        for f in fs:
            if f.endswith(".v") and not f.startswith("."):
                rel = os.path.relpath(os.path.join(d, f), COQ)
                if not rel.startswith("Tie" + os.sep) and not rel.startswith("Extract" + os.sep):
                    files.append(rel)
    files.sort()
    text = ("-Q . GM\n-arg -w -arg -notation-overridden,-deprecated-hint-without-locality,"
            "-deprecated-hint-rewrite-without-locality,-deprecated-instance-without-locality\n" + "\n".join(files) + "\n")
    path = os.path.join(COQ, "_CoqProject")
    old = open(path).read() if os.path.exists(path) else ""
    if old != text or not os.path.exists(os.path.join(COQ, "Makefile")):
        open(path, "w").write(text)
        sh("coq_makefile -f _CoqProject -o Makefile", cwd=COQ)


class Lock:
    def __init__(self, name):
        self.path = os.path.join(VERIF, ".lock-" + name)

    def __enter__(self):
        self.f = open(self.path, "w")
        fcntl.flock(self.f, fcntl.LOCK_EX)
        return self

    def __exit__(self, *a):
        fcntl.flock(self.f, fcntl.LOCK_UN)
        self.f.close()


def sh(cmd, cwd=None, env=None, timeout=None, stdin=None):
    e = dict(os.environ)
    if env:
        e.update(env)
    p = subprocess.run(cmd, cwd=cwd, env=e, stdout=subprocess.PIPE, stderr=subprocess.STDOUT,
                       timeout=timeout, input=stdin, shell=isinstance(cmd, str))
    return p.returncode, p.stdout.decode("utf-8", "replace")


class Check:
    def __init__(self, pid, argv, work_suffix=""):
        self.pid = pid
        self.t0 = time.time()
        self.tier = os.environ.get("VERIF_TIER", "quick")
        self.replay = None
        i = 0
        while i < len(argv):
            if argv[i] == "--tier":
                self.tier = argv[i + 1]; i += 2
            elif argv[i] == "--replay":
                self.replay = argv[i + 1]; i += 2
            else:
                i += 1
        if self.tier not in ("quick", "thorough"):
            self.tier = "quick"
        try:
            self.seed = int(os.environ.get("VERIF_SEED", "1"))
        except ValueError:
            self.seed = 1
        if self.replay:
            self.replay = os.path.abspath(self.replay)
            # a replay re-runs with the tier and seed recorded in the replay file's header
            try:
                head = open(self.replay).readline()
                m = re.match(r"# property \S+\s+tier (\S+)\s+seed (\d+)", head)
                if m:
                    self.tier, self.seed = m.group(1), int(m.group(2))
            except OSError:
                pass
        self.work = os.path.join(VERIF, ".work", "%s-%d%s" % (pid, os.getpid(), work_suffix))
        shutil.rmtree(self.work, ignore_errors=True)
        os.makedirs(self.work)
        self.replay_dir = os.path.join(VERIF, "replay", pid)
        os.makedirs(self.replay_dir, exist_ok=True)
        self.violations = []      # (replay_path, suffix)
        self.violation_kind = {}  # replay_path -> clause | "unwitnessed"
        self.clause_counts = {}
        self.known_printed = []
        self.obligations = 0
        self.discharged = 0
        self.theorems = []
        self.broken = []          # names of theorems / correspondences that no longer check
        self.stats = {}
        self.samples = []
        self.evaluations = 0
        self.distinct = 0
        self.rule = ""
        self.notes = []
        self.extra = {}
        self.harness_bin = None
        kf = json.load(open(os.path.join(VERIF, "known_findings.json")))
        self.known = [k for k in kf.get("open", []) if k["property"] == pid]

    # ---------------------------------------------------------------- Coq
    def coq(self):
        """make the project; compile Props/<ID>.v; count theorems and closed ones."""
        if not os.path.exists(os.path.join(COQ, "Props", self.pid + ".v")):
            self.broken.append("coq/Props/%s.v does not exist" % self.pid)
            self.props_out = ""
            return False
        with Lock("coq"):
            refresh_coq_project()
            rc, out = sh("timeout 3000 make -j16 Props/%s.vo 2>&1 | tail -40" % self.pid, cwd=COQ)
            built = rc == 0 and "Error" not in out
            if not built:
                self.broken.append("coq build: " + (out.strip().splitlines()[-1][:200] if out.strip() else "failed"))
                self.notes.append("coq make failed:\n" + out[-2000:])
            import glob as _glob
            subs = sorted(_glob.glob(os.path.join(COQ, "Props", self.pid + "_*.v")))
            files = [os.path.join(COQ, "Props", self.pid + ".v")] + subs
            if subs:
                rc2, out2 = sh("timeout 3000 make -j16 %s 2>&1 | tail -40" % " ".join("Props/" + os.path.basename(f) + "o" for f in subs), cwd=COQ)
                if rc2 != 0 or "Error" in out2:
                    built = False
                    self.broken.append("coq build: " + (out2.strip().splitlines()[-1][:200] if out2.strip() else "failed"))
            names, closed, allout = [], 0, ""
            for src in files:
                base = os.path.basename(src)[:-2]
                text = open(src).read()
                ns = re.findall(r"^\s*Theorem\s+(\w+)", text, re.M)
                names += ns
                rc, out = sh("timeout 1200 coqc -Q . GM -o %s Props/%s.v" % (os.path.join(self.work, base + ".vo"), base), cwd=COQ)
                allout += out
                if rc != 0:
                    self.broken.append("Props/%s.v does not compile: %s" % (base, out.strip()[-300:]))
                    self.theorems, self.obligations, self.discharged, self.props_out = names, len(names), 0, allout
                    return False
                closed += out.count("Closed under the global context")
            out = allout
            self.theorems = names
            self.obligations = len(names)
            self.props_out = out
            axioms = re.findall(r"^Axioms:\n((?:.+\n)+)", out, re.M)
            self.discharged = closed
            if axioms:
                self.broken.append("Print Assumptions lists axioms: " + " | ".join(a.strip() for a in axioms)[:400])
            if closed != len(names):
                self.broken.append("only %d of %d theorems closed under the global context" % (closed, len(names)))
            return built and closed == len(names)

    def coqchk(self, modules):
        """thorough tier: independent re-check of the compiled files"""
        with Lock("coq"):
            rc, out = sh("timeout 3000 coqchk -silent -o -Q . GM " + " ".join(modules), cwd=COQ)
        self.extra["coqchk_rc"] = rc
        self.extra["coqchk_tail"] = out.strip()[-600:]
        if rc != 0:
            self.broken.append("coqchk failed: " + out.strip()[-200:])
        return rc == 0

    def tie_v(self, name, content, timeout=1200):
        """compile a generated Tie/<name>.v (in-kernel table check); returns ok"""
        path = os.path.join(self.work, name + ".v")
        open(path, "w").write(content)
        rc, out = sh("timeout %d coqc -Q %s GM -Q %s Tie %s" % (timeout, COQ, self.work, path), cwd=self.work)
        if rc != 0:
            self.notes.append("Tie/%s.v failed: %s" % (name, out[-800:]))
        return rc == 0, out

    # ---------------------------------------------------------------- Go
    def build_harness(self, comp, race=False):
        """builds go/cmd/<comp> against /repo's current working tree with -tags verif"""
        god = os.path.join(VERIF, "go")
        # a private module file whose replace directive points at the tree under test (default /repo)
        modfile = os.path.join(self.work, "go.mod")
        mod = open(os.path.join(god, "go.mod")).read()
        mod = re.sub(r"replace github.com/256dpi/gomqtt => .*", "replace github.com/256dpi/gomqtt => " + REPO, mod)
        open(modfile, "w").write(mod)
        shutil.copy(os.path.join(REPO, "go.sum"), os.path.join(self.work, "go.sum"))
        out_bin = os.path.join(self.work, "harness_" + comp + ("_race" if race else ""))
        rc, out = sh(["go", "build", "-modfile", modfile, "-tags", "verif"] + (["-race"] if race else []) +
                     ["-o", out_bin, "./cmd/" + comp], cwd=god, env=GOENV, timeout=1200)
        if rc != 0:
            self.notes.append("harness build failed:\n" + out[-3000:])
            self.broken.append("harness does not build against /repo: " + out.strip()[-300:])
            return False
        if not race:
            self.harness_bin = out_bin
        return out_bin

    def harness(self, cmd, out_name=None, extra=(), timeout=3000, binary=None):
        """run a harness sub-command; returns (exchange path, stdout lines)"""
        out_path = os.path.join(self.work, out_name or (cmd + ".txt"))
        args = [binary or self.harness_bin, cmd, "-out", out_path, "-tier", self.tier, "-seed", str(self.seed)] + list(extra)
        rc, out = sh(args, cwd=self.work, env=GOENV, timeout=timeout)
        lines = out.splitlines()
        for l in lines:
            if l.startswith("stat "):
                k, v = l[5:].split("=", 1)
                try:
                    self.stats[k] = self.stats.get(k, 0) + int(v)
                except ValueError:
                    self.stats[k] = v
            elif l.startswith("sample "):
                if len(self.samples) < 8:
                    self.samples.append(l[7:][:600])
        if rc != 0:
            self.notes.append("harness %s exited %d:\n%s" % (cmd, rc, out[-3000:]))
            self.broken.append("harness %s crashed (exit %d): %s" % (cmd, rc, out.strip()[-300:]))
        return out_path, lines

    def ensure_runner(self, comp):
        """the model runner is extracted from the current Coq sources: rebuild it when the extraction file, a module it
        imports (transitively, through make) or its OCaml driver is newer than the binary"""
        ext = os.path.join(COQ, "Extract", "Extract_%s.v" % comp)
        binp = os.path.join(VERIF, "ocaml", "modelrun_" + comp)
        if not os.path.exists(ext):
            return
        src = open(ext).read()
        mods = []
        for m in re.findall(r"\b([A-Z][A-Za-z0-9_]*\.[A-Z][A-Za-z0-9_]*)\b", " ".join(re.findall(r"From GM Require Import([^\n]*(?:\n[^\n.]*)*)\.", src))):
            pth = m.replace(".", "/")
            if os.path.exists(os.path.join(COQ, pth + ".v")):
                mods.append(pth + ".vo")
        with Lock("coq"):
            refresh_coq_project()
            if mods:
                rc, out = sh("timeout 3000 make -j16 %s 2>&1 | tail -20" % " ".join(sorted(set(mods))), cwd=COQ)
                if rc != 0 or "Error" in out:
                    self.broken.append("coq build of the model runner's inputs failed: " + out.strip()[-300:])
                    return
            newest = os.path.getmtime(ext)
            for m in set(mods):
                newest = max(newest, os.path.getmtime(os.path.join(COQ, m)))
            import glob as _glob
            for f in _glob.glob(os.path.join(VERIF, "ocaml", "drv_%s*.ml" % comp)) + [os.path.join(VERIF, "ocaml", "conv.ml"), os.path.join(VERIF, "ocaml", "modelrun.ml")]:
                if os.path.exists(f):
                    newest = max(newest, os.path.getmtime(f))
            if not os.path.exists(binp) or os.path.getmtime(binp) < newest:
                rc, out = sh(["sh", os.path.join(VERIF, "ocaml", "build.sh"), comp], timeout=3000)
                if rc != 0:
                    self.broken.append("extraction / build of modelrun_%s failed: %s" % (comp, out.strip()[-300:]))

    def model(self, comp, cmd, path, timeout=3000):
        self.ensure_runner(comp)
        rc, out = sh([os.path.join(VERIF, "ocaml", "modelrun_" + comp), cmd, path], timeout=timeout)
        lines = out.splitlines()
        if rc != 0:
            self.broken.append("modelrun %s failed: %s" % (cmd, out.strip()[-300:]))
        done = [l for l in lines if l.startswith("done ")]
        if done:
            for kv in done[-1].split()[1:]:
                k, v = kv.split("=")
                self.stats["model_" + k] = self.stats.get("model_" + k, 0) + int(v)
        elif rc == 0:
            self.broken.append("modelrun %s printed no summary" % cmd)
        return lines

    # ---------------------------------------------------------------- verdicts
    def write_replay(self, tag, lines, header=()):
        h = hashlib.sha1(("\n".join(lines)).encode()).hexdigest()[:10]
        path = os.path.join(self.replay_dir, "%s-%s.txt" % (tag, h))
        with open(path, "w") as f:
            f.write("# property %s  tier %s  seed %d\n" % (self.pid, self.tier, self.seed))
            for x in header:
                f.write("# " + x + "\n")
            for l in lines:
                f.write(l + "\n")
        return path

    def match_known(self, clause, text):
        for k in self.known:
            if re.fullmatch(k["clause"], clause) and re.search(k["match"], text):
                return k
        return None

    def fail_input(self, clause, text, replay_lines, header=()):
        """a concrete input on which the implementation violates the property"""
        k = self.match_known(clause, text)
        if k is not None:
            if k["id"] not in self.known_printed:
                self.known_printed.append(k["id"])
            return
        self.clause_counts[clause] = self.clause_counts.get(clause, 0) + 1
        if self.clause_counts[clause] > 3:      # report the first few witnesses of a clause, count the rest
            return
        path = self.write_replay(clause, replay_lines, header=("clause " + clause, text) + tuple(header))
        self.violations.append((path, ""))
        self.violation_kind[path] = clause

    def fail_unwitnessed(self, what, replay_lines=()):
        """a theorem or correspondence no longer checks and no failing input was found"""
        path = self.write_replay("unwitnessed", list(replay_lines), header=("no longer checks: " + what,))
        self.violations.append((path, " no-failing-input-found"))
        self.violation_kind[path] = "unwitnessed"

    def kinds(self):
        """what this run would report: the clauses with a failing input, 'unwitnessed' for a broken proof, tie or tool"""
        k = set(self.violation_kind.get(p, "unwitnessed") for p, _ in self.violations)
        if self.broken:
            k.add("unwitnessed")
        return k

    def confirm(self, other):
        """keep what a second complete run (same tier, same seed) reports again under the same clause.  Timing-dependent
        harnesses (watchdogs, settle windows, whole-broker waits) can misfire once on an overloaded machine; a real
        violation, deterministic or racy, shows again.  What is dropped is printed and recorded in the evidence."""
        again = other.kinds()
        kept, dropped = [], []
        for v in self.violations:
            (kept if self.violation_kind.get(v[0], "unwitnessed") in again else dropped).append(v)
        if self.broken and "unwitnessed" not in again:
            dropped.append(("broken: " + "; ".join(self.broken)[:300], ""))
            self.broken = []
        self.violations = kept
        if dropped:
            self.extra["not_reproduced_by_confirmation_run"] = [
                {"clause": self.violation_kind.get(p, "unwitnessed"), "replay": p} for p, _ in dropped]
            for p, _ in dropped:
                print("NOTE: not reproduced by the confirmation run, not reported: clause=%s %s" % (self.violation_kind.get(p, "unwitnessed"), p))

    def finish(self, level_note_assumptions=()):
        # known findings: print each listed one that was reproduced on this run
        for k in self.known:
            if k["id"] in self.known_printed:
                print("KNOWN-FINDING: property=%s %s" % (self.pid, k["what"]))
        if self.broken and not self.violations:
            self.fail_unwitnessed("; ".join(self.broken)[:1500])
        seen = set()
        for path, suffix in self.violations:
            if path in seen:
                continue
            seen.add(path)
            print("VIOLATION property=%s replay=%s%s" % (self.pid, path, suffix))
        cov = {
            "obligations": max(self.obligations, 1),
            "discharged": self.discharged,
            "checker_cmd": "cd /verif/coq && make && coqc -Q . GM Props/%s.v   (Print Assumptions under every theorem%s)"
                           % (self.pid, "; coqchk -silent -o" if self.tier == "thorough" else ""),
            "trusted_base": TRUSTED_BASE,
            "theorems": self.theorems,
            "evaluations": int(self.evaluations),
            "distinct_nontrivial": int(self.distinct),
            "rule": self.rule,
            "samples": self.samples or ["(no sample recorded)"],
            "stats": self.stats,
            "known_findings_reproduced": self.known_printed,
            "broken": self.broken,
            "failing_inputs_per_clause": self.clause_counts,
        }
        cov.update(self.extra)
        ev = {
            "property_id": self.pid, "tier": self.tier, "seed": self.seed, "level": "proof",
            "coverage": cov,
            "assumptions": list(level_note_assumptions),
            "wall_s": round(time.time() - self.t0, 2),
            "violations": len(seen),
        }
        # evidence comes from runs against /repo itself; runs against a scratch copy (seeded changes) write elsewhere
        evdir = (os.path.join(VERIF, "evidence") if os.path.realpath(REPO) == "/repo" and not self.replay
                 else os.path.join(VERIF, ".work", "evidence-scratch"))
        os.makedirs(evdir, exist_ok=True)
        tmp = os.path.join(evdir, self.pid + ".json.tmp")
        json.dump(ev, open(tmp, "w"), indent=1)
        os.replace(tmp, os.path.join(evdir, self.pid + ".json"))
        if self.notes and (seen or os.environ.get("VERIF_VERBOSE")):
            sys.stderr.write("\n".join(self.notes) + "\n")
        shutil.rmtree(self.work, ignore_errors=True)
        print("%s %s: obligations=%d discharged=%d evaluations=%d distinct=%d violations=%d known=%d wall=%.1fs"
              % (self.pid, self.tier, self.obligations, self.discharged, self.evaluations, self.distinct,
                 len(seen), len(self.known_printed), time.time() - self.t0))
        return 1 if seen else 0
